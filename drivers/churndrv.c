/* churndrv: thread churn against one libovni process.  In every round one
 * thread lives and is freed, then K threads leave a barrier together, each
 * initialises its own stream, emits N events tagged (tid, sequence number),
 * flushes and is freed.  Thread ids are unique over the whole run, so every
 * stream must hold exactly the N events of its own thread (checked by the
 * caller from the files).
 *
 * With a fourth argument "overlap" the single thread of a round is not freed
 * before the group starts: it waits at the barrier and calls
 * ovni_thread_free() at the moment the K others call ovni_thread_init().
 *
 * With "pipeline" there is no lone thread: the K threads of round r are freed at
 * the very moment the K threads of round r+1 initialise (one barrier per round
 * boundary, shared by both groups).
 *
 * usage: churndrv <rounds> <K> <N> [overlap|pipeline]     (OVNI_TRACEDIR must be set)
 * prints: CHURN-DONE rounds=<r> threads=<t>
 */
#include <pthread.h>
#include <stdint.h>
#include <stdio.h>
#include <stdlib.h>
#include <string.h>
#include "ovni.h"

static pthread_barrier_t bar;
static int nev, overlap;

struct arg { int tid; int use_barrier; int free_at_barrier; };

struct parg { int tid; pthread_barrier_t *start, *end; };

static void *
pipelife(void *p)
{
	struct parg *a = p;
	pthread_barrier_wait(a->start);
	ovni_thread_init(a->tid);
	for (int i = 0; i < nev; i++) {
		struct ovni_ev ev;
		memset(&ev, 0, sizeof(ev));
		ovni_ev_set_clock(&ev, ovni_clock_now());
		ovni_ev_set_mcv(&ev, "UUU");
		uint32_t pl[2] = { (uint32_t) a->tid, (uint32_t) i };
		ovni_payload_add(&ev, (uint8_t *) pl, sizeof(pl));
		ovni_ev_emit(&ev);
	}
	ovni_flush();
	pthread_barrier_wait(a->end);
	ovni_thread_free();
	return NULL;
}

static int
pipeline(int rounds, int k)
{
	if (rounds < 1 || rounds > 400)
		return 98;
	pthread_barrier_t *bars = calloc((size_t) rounds + 1, sizeof(*bars));
	pthread_t *th = calloc((size_t) (rounds * k), sizeof(*th));
	struct parg *args = calloc((size_t) (rounds * k), sizeof(*args));
	if (!bars || !th || !args)
		return 98;
	for (int r = 0; r <= rounds; r++)
		pthread_barrier_init(&bars[r], NULL, (unsigned) ((r == 0 || r == rounds) ? k : 2 * k));
	ovni_proc_init(1, "churn", 4321);
	int tid = 10000;
	for (int r = 0; r < rounds; r++) {
		for (int i = 0; i < k; i++) {
			struct parg *a = &args[r * k + i];
			a->tid = tid++; a->start = &bars[r]; a->end = &bars[r + 1];
			if (pthread_create(&th[r * k + i], NULL, pipelife, a) != 0)
				return 98;
		}
	}
	for (int i = 0; i < rounds * k; i++)
		pthread_join(th[i], NULL);
	ovni_proc_fini();
	printf("CHURN-DONE rounds=%d threads=%d\n", rounds, rounds * k);
	return 0;
}

static void *
life(void *p)
{
	struct arg *a = p;
	if (a->use_barrier)
		pthread_barrier_wait(&bar);
	ovni_thread_init(a->tid);
	for (int i = 0; i < nev; i++) {
		struct ovni_ev ev;
		memset(&ev, 0, sizeof(ev));
		ovni_ev_set_clock(&ev, ovni_clock_now());
		ovni_ev_set_mcv(&ev, "UUU");
		uint32_t pl[2] = { (uint32_t) a->tid, (uint32_t) i };
		ovni_payload_add(&ev, (uint8_t *) pl, sizeof(pl));
		ovni_ev_emit(&ev);
	}
	ovni_flush();
	if (a->free_at_barrier)
		pthread_barrier_wait(&bar);
	ovni_thread_free();
	return NULL;
}

int
main(int argc, char *argv[])
{
	if (argc != 4 && argc != 5)
		return 98;
	overlap = argc == 5 && strcmp(argv[4], "overlap") == 0;
	int rounds = atoi(argv[1]), k = atoi(argv[2]);
	nev = atoi(argv[3]);
	if (k < 1 || k > 64)
		return 98;
	if (argc == 5 && strcmp(argv[4], "pipeline") == 0)
		return pipeline(rounds, k);
	ovni_proc_init(1, "churn", 4321);
	int tid = 10000, total = 0;
	for (int r = 0; r < rounds; r++) {
		pthread_t th[65];
		struct arg args[65];
		pthread_barrier_init(&bar, NULL, (unsigned) (k + overlap));
		args[0].tid = tid++; args[0].use_barrier = 0; args[0].free_at_barrier = overlap;
		pthread_create(&th[0], NULL, life, &args[0]);
		if (!overlap)
			pthread_join(th[0], NULL);
		for (int i = 1; i <= k; i++) {
			args[i].tid = tid++; args[i].use_barrier = 1; args[i].free_at_barrier = 0;
			pthread_create(&th[i], NULL, life, &args[i]);
		}
		if (overlap)
			pthread_join(th[0], NULL);
		for (int i = 1; i <= k; i++)
			pthread_join(th[i], NULL);
		pthread_barrier_destroy(&bar);
		total += k + 1;
	}
	ovni_proc_fini();
	printf("CHURN-DONE rounds=%d threads=%d\n", rounds, total);
	return 0;
}
