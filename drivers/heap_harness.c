/* heap_harness: drives src/include/heap.h with operation sequences read
 * from stdin and checks structural invariants after every operation.
 *
 * Input: lines "I <key>" (insert new node with key) or "P" (pop), "R" reset,
 * "E" end of sequence (prints summary line and resets).
 * Output per sequence: "OK <npops> <popped keys...>" or "BAD <reason>".
 * The comparator makes a min-heap like player.c's stream_cmp does.
 */
#include <stdint.h>
#include <stdio.h>
#include <stdlib.h>
#include <string.h>

#include "heap.h"

struct item {
	long key;
	long serial;
	int inheap;
	heap_node_t hh;
};

static int
cmp(heap_node_t *a, heap_node_t *b)
{
	struct item *ia = heap_elem(a, struct item, hh);
	struct item *ib = heap_elem(b, struct item, hh);
	if (ia->key < ib->key)
		return +1;
	else if (ia->key > ib->key)
		return -1;
	return 0;
}

static char bad[256];

static size_t
walk(heap_node_t *n, heap_node_t *parent, size_t pos, size_t size, size_t *maxpos)
{
	if (n == NULL)
		return 0;
	if (n->parent != parent && !bad[0])
		snprintf(bad, sizeof(bad), "parent link broken at position %zu", pos);
	if (parent && cmp(n, parent) > 0 && !bad[0])
		snprintf(bad, sizeof(bad), "heap order broken at position %zu", pos);
	if (pos > size && !bad[0])
		snprintf(bad, sizeof(bad), "node at position %zu beyond size %zu (not a complete tree)", pos, size);
	if (pos > *maxpos)
		*maxpos = pos;
	struct item *it = heap_elem(n, struct item, hh);
	if (!it->inheap && !bad[0])
		snprintf(bad, sizeof(bad), "popped node still linked at position %zu", pos);
	if (pos > (1u << 24))
		return 1; /* cycle guard */
	return 1 + walk(n->left, n, 2 * pos, size, maxpos) + walk(n->right, n, 2 * pos + 1, size, maxpos);
}

static void
check(heap_head_t *h)
{
	size_t maxpos = 0;
	size_t n = walk(h->root, NULL, 1, h->size, &maxpos);
	if (n != h->size && !bad[0])
		snprintf(bad, sizeof(bad), "tree has %zu nodes, size says %zu", n, h->size);
	if (h->size == 0 && h->root != NULL && !bad[0])
		snprintf(bad, sizeof(bad), "root not NULL with size 0");
}

int
main(void)
{
	heap_head_t heap;
	heap_init(&heap);
	static struct item items[4096];
	static long popped[8192];
	int nitems = 0, npop = 0;
	long serial = 0;
	char line[128];
	bad[0] = 0;
	long last = 0;
	int havelast = 0;
	(void) last; (void) havelast;
	while (fgets(line, sizeof(line), stdin)) {
		if (line[0] == 'I') {
			if (nitems >= 4096) {
				puts("BAD harness: too many items");
				return 2;
			}
			struct item *it = &items[nitems++];
			it->key = atol(line + 2);
			it->serial = serial++;
			it->inheap = 1;
			heap_insert(&heap, &it->hh, cmp);
			check(&heap);
		} else if (line[0] == 'P') {
			heap_node_t *n = heap_pop_max(&heap, cmp);
			if (n == NULL) {
				popped[npop++] = -1;
			} else {
				struct item *it = heap_elem(n, struct item, hh);
				if (!it->inheap && !bad[0])
					snprintf(bad, sizeof(bad), "node popped twice");
				it->inheap = 0;
				/* must be a minimum of what is in the heap */
				for (int i = 0; i < nitems; i++) {
					if (items[i].inheap && items[i].key < it->key && !bad[0])
						snprintf(bad, sizeof(bad), "popped key %ld but %ld still inside", it->key, items[i].key);
				}
				popped[npop++] = it->key;
			}
			check(&heap);
		} else if (line[0] == 'E') {
			if (bad[0]) {
				printf("BAD %s\n", bad);
			} else {
				printf("OK %d", npop);
				for (int i = 0; i < npop; i++)
					printf(" %ld", popped[i]);
				printf("\n");
			}
			heap_init(&heap);
			nitems = 0;
			npop = 0;
			bad[0] = 0;
		}
	}
	return 0;
}
