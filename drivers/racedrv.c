/* racedrv: N threads released from a barrier all call ovni_proc_init(); the
 * library aborts the losers (die -> abort -> SIGABRT).  A SIGABRT handler
 * records the refusal and parks the calling thread for ever (glibc's abort
 * releases its lock around raise(), so several losers can be parked), which
 * lets the monitor count winners and losers deterministically instead of
 * racing the process' own death.  Then N fresh threads race ovni_proc_fini().
 *
 * With RACEDRV_MIXED the odd racers of the second phase call ovni_proc_init()
 * instead (all must be refused).
 *
 * usage: racedrv <nthreads>       (OVNI_TRACEDIR must be set)
 * prints: INIT winners=<w> refused=<r> winner=<index>
 *         FINI winners=<w> refused=<r> winner=<index>
 */
#include <pthread.h>
#include <signal.h>
#include <stdatomic.h>
#include <stdio.h>
#include <stdlib.h>
#include <string.h>
#include <time.h>
#include <unistd.h>
#include "ovni.h"

static pthread_barrier_t bar;
static atomic_int returned, refused, winner_idx, init_returned;
static int mixed;
static int distinct_args;
static _Thread_local int my_idx;
static int phase;

static void
on_abort(int sig)
{
	(void) sig;
	atomic_fetch_add(&refused, 1);
	for (;;)
		pause();
}

static void *
racer(void *arg)
{
	my_idx = (int) (long) arg;
	pthread_barrier_wait(&bar);
	if (phase == 0) {
		/* RACEDRV_ARGS: every racer passes its own pid (as threads that
		 * disagree about the process would): still only one may win */
		ovni_proc_init(1, "raceloom", distinct_args ? 4242 + my_idx : 4242);
	} else if (mixed && (my_idx & 1)) {
		/* RACEDRV_MIXED: odd racers of the second phase try to initialise
		 * the process again while the others finalise it: the process is
		 * ready, being finalised or gone, so every such call must be
		 * refused */
		ovni_proc_init(1, "raceloom", distinct_args ? 5000 + my_idx : 4242);
		atomic_fetch_add(&init_returned, 1);
		return NULL;
	} else {
		ovni_proc_fini();
	}
	atomic_store(&winner_idx, my_idx);
	atomic_fetch_add(&returned, 1);
	return NULL;
}

static void
wait_all(int n)
{
	struct timespec ts = { 0, 1000000 };
	for (int i = 0; i < 20000; i++) {
		if (atomic_load(&returned) + atomic_load(&refused) + atomic_load(&init_returned) >= n)
			break;
		nanosleep(&ts, NULL);
	}
	/* give late arrivals a chance to show a second winner */
	for (int i = 0; i < 20; i++)
		nanosleep(&ts, NULL);
}

int
main(int argc, char *argv[])
{
	int n = argc > 1 ? atoi(argv[1]) : 4;
	mixed = getenv("RACEDRV_MIXED") != NULL;
	distinct_args = getenv("RACEDRV_ARGS") != NULL;
	struct sigaction sa;
	memset(&sa, 0, sizeof(sa));
	sa.sa_handler = on_abort;
	sa.sa_flags = SA_NODEFER;
	sigaction(SIGABRT, &sa, NULL);

	for (phase = 0; phase < 2; phase++) {
		atomic_store(&returned, 0);
		atomic_store(&refused, 0);
		atomic_store(&winner_idx, -1);
		pthread_barrier_init(&bar, NULL, (unsigned) n);
		pthread_t th[64];
		for (long i = 0; i < n; i++)
			pthread_create(&th[i], NULL, racer, (void *) i);
		wait_all(n);
		printf("%s winners=%d refused=%d winner=%d reinit=%d\n", phase == 0 ? "INIT" : "FINI",
				atomic_load(&returned), atomic_load(&refused), atomic_load(&winner_idx),
				atomic_load(&init_returned));
		fflush(stdout);
		if (phase == 0 && atomic_load(&returned) != 1)
			break;
	}
	fflush(stdout);
	_exit(0);
}
