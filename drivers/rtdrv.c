/* rtdrv: interprets an op script against the real libovni, recording at the
 * client boundary what is handed to the library.
 *
 * usage: rtdrv <script> <logdir>
 *
 * Script (one op per line, '#' comments):
 *   proc <app> <loom> <pid>        ovni_proc_init (main thread, before threads start)
 *   noproc                         do not call ovni_proc_init at all
 *   thread                         start of a thread section (each runs in its own pthread)
 *     init <tid>
 *     vercheck                     ovni_version_check()
 *     cpu <index> <phyid>
 *     require <model> <version>
 *     rank <rank> <nranks>
 *     fsize <bytes>                  RLIMIT_FSIZE from now on (SIGXFSZ ignored)
 *     ev <mcv> <clock|now> <hex|-> [[p:|m:|r:]a+b+c]   payload added with one or several ovni_payload_add;
 *                                             prefix = order of the set_mcv/set_clock/payload_add calls
 *     jumbo <mcv> <clock|now> <size> <seed>
 *     flush
 *     mark_type <type> <flags> <title>
 *     mark_label <type> <value> <label>
 *     mark_push|mark_pop|mark_set <type> <value>
 *     attr_str|attr_double|attr_bool|attr_json <key> <value>
 *     attr_flush
 *     free
 *     barrier                      pthread barrier over all thread sections
 *     usleep <n>
 *   end
 *   fini                           ovni_proc_fini after all threads joined
 *   nofini
 *
 * Log (<logdir>/<section>.log), written with write(2) BEFORE each call so
 * that it survives SIGKILL/abort:
 *   'I' u32 tid            about to call ovni_thread_init    'i' returned
 *   'E' mcv[3] u64 clock u32 len payload[len]   about to emit a normal event
 *   'J' mcv[3] u64 clock u32 size u32 seed u64 uid   about to emit a jumbo
 *   'e'                    emit call returned
 *   'f' about to call ovni_flush       'F' returned
 *   'M' mcv[3] u64 t_before i64 value i32 type  about to call a mark op
 *   'm' u64 t_after        mark op returned
 *   'X' about to call ovni_thread_free  'x' returned
 *   'O' u8 oplen op[...]   other op about to be called (line text)  'o' returned
 */
#include <errno.h>
#include <fcntl.h>
#include <inttypes.h>
#include <pthread.h>
#include <stdatomic.h>
#include <stdint.h>
#include <stdio.h>
#include <stdlib.h>
#include <string.h>
#include <signal.h>
#include <sys/resource.h>
#include <sys/syscall.h>
#include <unistd.h>

#include "ovni.h"

/* Interposed write(2): libovni's write() calls resolve here (the executable
 * precedes libc in the lookup scope).  With RTDRV_SHORTWRITE=<seed> every
 * write of more than one byte becomes a genuine partial write, which the
 * kernel is always allowed to do. */
static int eintr_on;
static unsigned eintr_seed;
static _Atomic unsigned long eintr_count;
static int shortwrite_on = -1;
static unsigned shortwrite_seed;
static _Thread_local unsigned sw_state;
static _Thread_local int sw_init;
static _Atomic unsigned long sw_count;

/* initialised before any thread exists (the monitor must not be the race) */
__attribute__((constructor)) static void
shortwrite_init(void)
{
	const char *e = getenv("RTDRV_SHORTWRITE");
	shortwrite_seed = e ? (unsigned) atoi(e) : 0;
	shortwrite_on = e != NULL;
	/* RTDRV_EINTR=<seed>: some writes fail with EINTR before transferring
	 * anything (a signal handler installed without SA_RESTART) */
	const char *q = getenv("RTDRV_EINTR");
	eintr_seed = q ? (unsigned) atoi(q) : 0;
	eintr_on = q != NULL;
}

ssize_t
write(int fd, const void *buf, size_t n)
{
	if (eintr_on && fd > 2 && 1) {
		if (!sw_init) {
			sw_state = eintr_seed * 2654435761u + (unsigned) syscall(SYS_gettid) * 40503u;
			sw_init = 1;
		}
		if ((unsigned) rand_r(&sw_state) % 6 == 0) {
			eintr_count++;
			errno = EINTR;
			return -1;
		}
	}
	if (shortwrite_on && n > 1 && fd > 2) {
		if (!sw_init) {
			sw_state = shortwrite_seed * 2654435761u + (unsigned) syscall(SYS_gettid) * 40503u;
			sw_init = 1;
		}
		unsigned r = (unsigned) rand_r(&sw_state);
		size_t k;
		switch (r % 4) {
		case 0: k = 1 + (r >> 4) % 16; break;
		case 1: k = n - 1; break;
		case 2: k = 1 + (r >> 4) % n; break;
		default: k = (n > 4096) ? 4096 : n / 2; break;
		}
		if (k < 1) k = 1;
		if (k < n) {
			n = k;
			sw_count++;
		}
	}
	return syscall(SYS_write, fd, buf, n);
}

/* writev() under the same regime: the kernel may transfer fewer bytes than the
 * vectors hold (only the short-write mode; the data written is genuine) */
#include <sys/uio.h>
ssize_t
writev(int fd, const struct iovec *iov, int iovcnt)
{
	if (shortwrite_on && fd > 2 && iovcnt > 0) {
		if (!sw_init) {
			sw_state = shortwrite_seed * 2654435761u + (unsigned) syscall(SYS_gettid) * 40503u;
			sw_init = 1;
		}
		size_t total = 0;
		for (int i = 0; i < iovcnt; i++)
			total += iov[i].iov_len;
		unsigned r = (unsigned) rand_r(&sw_state);
		if (total > 1 && r % 4 != 3) {
			/* keep a prefix of the vectors: 1..total-1 bytes */
			size_t keep = 1 + (r >> 4) % (total - 1);
			struct iovec tmp[16];
			int n = 0;
			for (int i = 0; i < iovcnt && i < 16 && keep > 0; i++) {
				tmp[n] = iov[i];
				if (tmp[n].iov_len > keep)
					tmp[n].iov_len = keep;
				keep -= tmp[n].iov_len;
				n++;
			}
			sw_count++;
			return syscall(SYS_writev, fd, tmp, n);
		}
	}
	return syscall(SYS_writev, fd, iov, iovcnt);
}

#define MAXSEC 64

struct section {
	char **lines;
	int nlines;
	int cap;
	int idx;
	int logfd;
	pthread_t th;
};

static struct section secs[MAXSEC];
static int nsecs;
static pthread_barrier_t bar;
static const char *logdir;

static void
xwrite(int fd, const void *buf, size_t n)
{
	const uint8_t *p = buf;
	while (n > 0) {
		ssize_t w = syscall(SYS_write, fd, p, n);
		if (w < 0) {
			if (errno == EINTR)
				continue;
			perror("rtdrv: log write");
			_exit(97);
		}
		p += w;
		n -= (size_t) w;
	}
}

static void
logrec(struct section *s, const void *buf, size_t n)
{
	xwrite(s->logfd, buf, n);
}

static void
logc(struct section *s, char c)
{
	logrec(s, &c, 1);
}

static int
hexval(int c)
{
	if (c >= '0' && c <= '9') return c - '0';
	if (c >= 'a' && c <= 'f') return c - 'a' + 10;
	if (c >= 'A' && c <= 'F') return c - 'A' + 10;
	return -1;
}

void jumbo_fill(uint8_t *buf, uint32_t size, uint32_t seed, uint64_t uid);

void
jumbo_fill(uint8_t *buf, uint32_t size, uint32_t seed, uint64_t uid)
{
	for (uint32_t i = 0; i < size; i++)
		buf[i] = (uint8_t) ((seed + i) % 251);
	uint32_t n = size < 8 ? size : 8;
	memcpy(buf, &uid, n);
}

static uint64_t
parse_clock(const char *s)
{
	/* "same": the clock value this thread used last (one clock read shared by
	 * two events) */
	static _Thread_local uint64_t last;
	if (strcmp(s, "same") == 0 && last != 0)
		return last;
	if (strcmp(s, "now") == 0 || strcmp(s, "same") == 0)
		return last = ovni_clock_now();
	return last = strtoull(s, NULL, 10);
}

static void
do_ev(struct section *s, char *args)
{
	char mcv[8] = {0}, clk[64] = {0}, hex[128] = {0}, split[64] = {0};
	int n = sscanf(args, "%7s %63s %127s %63s", mcv, clk, hex, split);
	if (n < 3) {
		fprintf(stderr, "rtdrv: bad ev line: %s\n", args);
		exit(98);
	}
	uint8_t payload[64];
	int len = 0;
	if (strcmp(hex, "-") != 0) {
		size_t hl = strlen(hex);
		for (size_t i = 0; i + 1 < hl; i += 2)
			payload[len++] = (uint8_t) (hexval(hex[i]) * 16 + hexval(hex[i + 1]));
	}
	uint64_t clock = parse_clock(clk);

	uint8_t rec[1 + 3 + 8 + 4 + 64];
	rec[0] = 'E';
	memcpy(rec + 1, mcv, 3);
	memcpy(rec + 4, &clock, 8);
	uint32_t l32 = (uint32_t) len;
	memcpy(rec + 12, &l32, 4);
	memcpy(rec + 16, payload, (size_t) len);
	logrec(s, rec, 16 + (size_t) len);

	/* call order: the API does not prescribe one.  split token prefix
	 * "p:" payload, mcv, clock; "m:" mcv, payload, clock; "r:" the event
	 * structure of the previous ev line of this thread is used again, only
	 * mcv and clock are set anew (the script guarantees an equal payload) */
	static _Thread_local struct ovni_ev ev;
	static _Thread_local int have_prev = 0;
	static _Thread_local uint8_t prev_payload[64];
	static _Thread_local int prev_len = -1;
	char order = 'c';
	char *sp = split;
	if (n >= 4 && split[0] && split[1] == ':') {
		order = split[0];
		sp = split + 2;
	}
	if (order == 'r' && have_prev && prev_len == len && memcmp(prev_payload, payload, (size_t) len) == 0) {
		ovni_ev_set_mcv(&ev, mcv);
		ovni_ev_set_clock(&ev, clock);
	} else {
		memset(&ev, 0, sizeof(ev));
		if (order == 'c') {
			ovni_ev_set_clock(&ev, clock);
			ovni_ev_set_mcv(&ev, mcv);
		} else if (order == 'm') {
			ovni_ev_set_mcv(&ev, mcv);
		}
		if (len > 0) {
			if (*sp) {
				int off = 0;
				char *save = NULL;
				for (char *t = strtok_r(sp, "+", &save); t; t = strtok_r(NULL, "+", &save)) {
					int k = atoi(t);
					ovni_payload_add(&ev, payload + off, k);
					off += k;
				}
				if (off != len) {
					fprintf(stderr, "rtdrv: split does not add up\n");
					exit(98);
				}
			} else {
				ovni_payload_add(&ev, payload, len);
			}
		}
		if (order == 'p' || order == 'r') {
			ovni_ev_set_mcv(&ev, mcv);
			ovni_ev_set_clock(&ev, clock);
		} else if (order == 'm') {
			ovni_ev_set_clock(&ev, clock);
		}
	}
	have_prev = 1;
	prev_len = len;
	memcpy(prev_payload, payload, (size_t) len);
	ovni_ev_emit(&ev);
	logc(s, 'e');
}

static void
do_jumbo(struct section *s, char *args)
{
	static _Thread_local uint8_t *jbuf = NULL;
	static _Thread_local uint64_t counter = 0;
	char mcv[8] = {0}, clk[64] = {0};
	unsigned long size, seed;
	if (sscanf(args, "%7s %63s %lu %lu", mcv, clk, &size, &seed) != 4) {
		fprintf(stderr, "rtdrv: bad jumbo line: %s\n", args);
		exit(98);
	}
	if (jbuf == NULL)
		jbuf = malloc(OVNI_MAX_EV_BUF + 64);
	uint64_t uid = ((uint64_t) (s->idx + 1) << 48) | (++counter);
	jumbo_fill(jbuf, (uint32_t) size, (uint32_t) seed, uid);
	uint64_t clock = parse_clock(clk);

	uint8_t rec[1 + 3 + 8 + 4 + 4 + 8];
	rec[0] = 'J';
	memcpy(rec + 1, mcv, 3);
	memcpy(rec + 4, &clock, 8);
	uint32_t s32 = (uint32_t) size, d32 = (uint32_t) seed;
	memcpy(rec + 12, &s32, 4);
	memcpy(rec + 16, &d32, 4);
	memcpy(rec + 20, &uid, 8);
	logrec(s, rec, sizeof(rec));

	struct ovni_ev ev;
	memset(&ev, 0, sizeof(ev));
	ovni_ev_set_clock(&ev, clock);
	ovni_ev_set_mcv(&ev, mcv);
	ovni_ev_jumbo_emit(&ev, jbuf, s32);
	logc(s, 'e');
}

static void
do_mark(struct section *s, const char *op, char *args)
{
	long type;
	long long value;
	if (sscanf(args, "%ld %lld", &type, &value) != 2) {
		fprintf(stderr, "rtdrv: bad mark line: %s\n", args);
		exit(98);
	}
	const char *mcv = strcmp(op, "mark_push") == 0 ? "OM[" :
		strcmp(op, "mark_pop") == 0 ? "OM]" : "OM=";
	uint8_t rec[1 + 3 + 8 + 8 + 4];
	uint64_t t0 = ovni_clock_now();
	int64_t v = (int64_t) value;
	int32_t t = (int32_t) type;
	rec[0] = 'M';
	memcpy(rec + 1, mcv, 3);
	memcpy(rec + 4, &t0, 8);
	memcpy(rec + 12, &v, 8);
	memcpy(rec + 20, &t, 4);
	logrec(s, rec, sizeof(rec));
	if (mcv[2] == '[')
		ovni_mark_push(t, v);
	else if (mcv[2] == ']')
		ovni_mark_pop(t, v);
	else
		ovni_mark_set(t, v);
	uint64_t t1 = ovni_clock_now();
	uint8_t rec2[9];
	rec2[0] = 'm';
	memcpy(rec2 + 1, &t1, 8);
	logrec(s, rec2, 9);
}

static void
log_other(struct section *s, const char *line)
{
	uint8_t rec[2 + 255];
	size_t n = strlen(line);
	if (n > 255)
		n = 255;
	rec[0] = 'O';
	rec[1] = (uint8_t) n;
	memcpy(rec + 2, line, n);
	logrec(s, rec, 2 + n);
}

static void
run_line(struct section *s, char *line)
{
	char op[64] = {0};
	int pos = 0;
	if (sscanf(line, "%63s %n", op, &pos) < 1)
		return;
	char *args = line + pos;

	if (strcmp(op, "ev") == 0) {
		do_ev(s, args);
	} else if (strcmp(op, "jumbo") == 0) {
		do_jumbo(s, args);
	} else if (strcmp(op, "bulk") == 0) {
		/* bulk <count>: count events OB. stamped with the real clock and carrying
		 * the 16-byte payload (i, ~i).  Logged as 'B' count before and, once all
		 * calls have returned, 'b' followed by the count clocks (one write). */
		unsigned long count = strtoul(args, NULL, 10);
		if (count == 0 || count > 4000000) {
			fprintf(stderr, "rtdrv: bad bulk line: %s\n", args);
			exit(98);
		}
		uint8_t rec[5];
		uint32_t c32 = (uint32_t) count;
		rec[0] = 'B';
		memcpy(rec + 1, &c32, 4);
		logrec(s, rec, 5);
		uint8_t *clk = malloc(1 + count * 8);
		if (clk == NULL)
			exit(97);
		clk[0] = 'b';
		for (uint64_t i = 0; i < count; i++) {
			struct ovni_ev ev;
			memset(&ev, 0, sizeof(ev));
			uint64_t now = ovni_clock_now();
			memcpy(clk + 1 + i * 8, &now, 8);
			ovni_ev_set_clock(&ev, now);
			ovni_ev_set_mcv(&ev, "OB.");
			uint64_t pl[2] = { i, ~i };
			ovni_payload_add(&ev, (uint8_t *) pl, 16);
			ovni_ev_emit(&ev);
		}
		logrec(s, clk, 1 + count * 8);
		free(clk);
	} else if (strcmp(op, "flush") == 0) {
		logc(s, 'f');
		ovni_flush();
		logc(s, 'F');
	} else if (strncmp(op, "mark_p", 6) == 0 || strcmp(op, "mark_set") == 0) {
		do_mark(s, op, args);
	} else if (strcmp(op, "init") == 0) {
		uint8_t rec[5];
		uint32_t tid = (uint32_t) atoi(args);
		rec[0] = 'I';
		memcpy(rec + 1, &tid, 4);
		logrec(s, rec, 5);
		/* RTDRV_CLOSE_STDIN: the program runs without a standard input
		 * (daemon, "prog <&-"): the first stream the library opens gets
		 * descriptor 0 */
		static _Atomic int closed0;
		if (getenv("RTDRV_CLOSE_STDIN") && !atomic_exchange(&closed0, 1))
			close(0);
		ovni_thread_init((pid_t) tid);
		logc(s, 'i');
	} else if (strcmp(op, "free") == 0) {
		logc(s, 'X');
		ovni_thread_free();
		logc(s, 'x');
	} else if (strcmp(op, "barrier") == 0) {
		pthread_barrier_wait(&bar);
	} else if (strcmp(op, "usleep") == 0) {
		usleep((useconds_t) atoi(args));
	} else if (strcmp(op, "fsize") == 0) {
		/* fsize <bytes>: from now on no file of the process can grow beyond
		 * that size (a quota / file size limit); writes that would fail
		 * with EFBIG instead of killing the process */
		struct rlimit rl;
		rl.rlim_cur = rl.rlim_max = (rlim_t) strtoull(args, NULL, 10);
		signal(SIGXFSZ, SIG_IGN);
		if (setrlimit(RLIMIT_FSIZE, &rl) != 0)
			exit(97);
	} else {
		log_other(s, line);
		if (strcmp(op, "cpu") == 0) {
			int a, b;
			sscanf(args, "%d %d", &a, &b);
			ovni_add_cpu(a, b);
		} else if (strcmp(op, "vercheck") == 0) {
			ovni_version_check();
		} else if (strcmp(op, "require") == 0) {
			char m[64], v[64];
			sscanf(args, "%63s %63s", m, v);
			ovni_thread_require(m, v);
		} else if (strcmp(op, "rank") == 0) {
			int a, b;
			sscanf(args, "%d %d", &a, &b);
			ovni_proc_set_rank(a, b);
		} else if (strcmp(op, "mark_type") == 0) {
			long t, f;
			int p2 = 0;
			sscanf(args, "%ld %ld %n", &t, &f, &p2);
			ovni_mark_type((int32_t) t, f, args + p2);
		} else if (strcmp(op, "mark_label") == 0) {
			long t;
			long long v;
			int p2 = 0;
			sscanf(args, "%ld %lld %n", &t, &v, &p2);
			ovni_mark_label((int32_t) t, (int64_t) v, args + p2);
		} else if (strcmp(op, "attr_str") == 0) {
			char k[128];
			int p2 = 0;
			sscanf(args, "%127s %n", k, &p2);
			ovni_attr_set_str(k, args + p2);
		} else if (strcmp(op, "attr_double") == 0) {
			char k[128];
			double d;
			sscanf(args, "%127s %lf", k, &d);
			ovni_attr_set_double(k, d);
		} else if (strcmp(op, "attr_bool") == 0) {
			char k[128];
			int b;
			sscanf(args, "%127s %d", k, &b);
			ovni_attr_set_boolean(k, b);
		} else if (strcmp(op, "attr_json") == 0) {
			char k[128];
			int p2 = 0;
			sscanf(args, "%127s %n", k, &p2);
			ovni_attr_set_json(k, args + p2);
		} else if (strcmp(op, "attr_flush") == 0) {
			ovni_attr_flush();
		} else {
			fprintf(stderr, "rtdrv: unknown op '%s'\n", op);
			exit(98);
		}
		logc(s, 'o');
	}
}

static void *
run_section(void *arg)
{
	struct section *s = arg;
	for (int i = 0; i < s->nlines; i++)
		run_line(s, s->lines[i]);
	return NULL;
}

int
main(int argc, char *argv[])
{
	if (argc != 3) {
		fprintf(stderr, "usage: rtdrv script logdir\n");
		return 98;
	}
	logdir = argv[2];
	FILE *f = fopen(argv[1], "r");
	if (!f) {
		perror("rtdrv: script");
		return 98;
	}
	char *line = NULL;
	size_t cap = 0;
	ssize_t len;
	struct section *cur = NULL;
	int do_proc = 0, do_fini = 0, app = 0, pid = 0;
	char loom[600] = {0};

	while ((len = getline(&line, &cap, f)) > 0) {
		while (len > 0 && (line[len - 1] == '\n' || line[len - 1] == '\r'))
			line[--len] = '\0';
		char *p = line;
		while (*p == ' ' || *p == '\t')
			p++;
		if (*p == '\0' || *p == '#')
			continue;
		if (cur == NULL) {
			if (strncmp(p, "proc ", 5) == 0) {
				sscanf(p + 5, "%d %599s %d", &app, loom, &pid);
				do_proc = 1;
			} else if (strcmp(p, "fini") == 0) {
				do_fini = 1;
			} else if (strcmp(p, "thread") == 0) {
				if (nsecs >= MAXSEC) {
					fprintf(stderr, "rtdrv: too many sections\n");
					return 98;
				}
				cur = &secs[nsecs];
				cur->idx = nsecs++;
				cur->cap = 1024;
				cur->lines = calloc((size_t) cur->cap, sizeof(char *));
			} else if (strcmp(p, "nofini") == 0 || strcmp(p, "noproc") == 0) {
			} else {
				fprintf(stderr, "rtdrv: unexpected top-level line: %s\n", p);
				return 98;
			}
		} else {
			if (strcmp(p, "end") == 0) {
				cur = NULL;
			} else {
				if (cur->nlines >= cur->cap) {
					cur->cap *= 2;
					cur->lines = realloc(cur->lines, (size_t) cur->cap * sizeof(char *));
					if (cur->lines == NULL)
						return 98;
				}
				cur->lines[cur->nlines++] = strdup(p);
			}
		}
	}
	fclose(f);

	for (int i = 0; i < nsecs; i++) {
		char path[4096];
		snprintf(path, sizeof(path), "%s/%d.log", logdir, i);
		secs[i].logfd = open(path, O_WRONLY | O_CREAT | O_TRUNC | O_APPEND, 0644);
		if (secs[i].logfd < 0) {
			perror("rtdrv: open log");
			return 98;
		}
	}

	pthread_barrier_init(&bar, NULL, (unsigned) (nsecs > 0 ? nsecs : 1));

	if (do_proc)
		ovni_proc_init(app, loom, pid);

	if (nsecs == 1 && getenv("RTDRV_INLINE") != NULL) {
		/* run the only section on the main thread (single-threaded process:
		 * syscall counters of the injector then see exactly one thread) */
		run_section(&secs[0]);
	} else {
		for (int i = 0; i < nsecs; i++) {
			if (pthread_create(&secs[i].th, NULL, run_section, &secs[i]) != 0) {
				perror("rtdrv: pthread_create");
				return 98;
			}
		}
		for (int i = 0; i < nsecs; i++)
			pthread_join(secs[i].th, NULL);
	}

	if (do_fini)
		ovni_proc_fini();

	printf("RTDRV-DONE shortwrites=%lu eintr=%lu\n", (unsigned long) sw_count, (unsigned long) eintr_count);
	fflush(stdout);
	return 0;
}
