/* shortio: LD_PRELOAD shim that makes pwrite()/write() on regular files
 * transfer fewer bytes than asked (a legal behaviour of the system call: NFS,
 * FUSE, nearly full disks, signals).  The data that is written is genuine;
 * only the count is capped.  SHORTIO_SEED=<n> selects the sequence of caps
 * (1..64 bytes, now and then a full transfer).  SHORTIO_FAIL=<n>: the n-th
 * pwrite on a regular file fails with EIO instead (nothing is written). */
#define _GNU_SOURCE
#include <dlfcn.h>
#include <errno.h>
#include <stdlib.h>
#include <sys/stat.h>
#include <unistd.h>

static unsigned state;
static int on = -1;

static size_t
cap(int fd, size_t n)
{
	if (on < 0) {
		const char *e = getenv("SHORTIO_SEED");
		on = e != NULL;
		state = e ? (unsigned) atoi(e) * 2654435761u + 1u : 1u;
	}
	struct stat st;
	if (!on || n < 2 || fstat(fd, &st) != 0 || !S_ISREG(st.st_mode))
		return n;
	state ^= state << 13; state ^= state >> 17; state ^= state << 5;
	if (state % 5 == 0)
		return n;
	size_t c = 1 + state % 64;
	return c < n ? c : n;
}

static int
must_fail(int fd)
{
	static int failat = -1, count;
	if (failat < 0) {
		const char *e = getenv("SHORTIO_FAIL");
		failat = e ? atoi(e) : 0;
	}
	struct stat st;
	if (failat <= 0 || fstat(fd, &st) != 0 || !S_ISREG(st.st_mode))
		return 0;
	return ++count == failat;
}

ssize_t
pwrite(int fd, const void *buf, size_t n, off_t off)
{
	if (must_fail(fd)) {
		errno = EIO;
		return -1;
	}
	static ssize_t (*real)(int, const void *, size_t, off_t);
	if (!real)
		real = (ssize_t (*)(int, const void *, size_t, off_t)) dlsym(RTLD_NEXT, "pwrite");
	return real(fd, buf, cap(fd, n), off);
}

ssize_t
pwrite64(int fd, const void *buf, size_t n, off_t off)
{
	if (must_fail(fd)) {
		errno = EIO;
		return -1;
	}
	static ssize_t (*real)(int, const void *, size_t, off_t);
	if (!real)
		real = (ssize_t (*)(int, const void *, size_t, off_t)) dlsym(RTLD_NEXT, "pwrite64");
	return real(fd, buf, cap(fd, n), off);
}
