/* sort_harness: real src/emu/sort.c wired to a real bay.
 * Input, one sequence per line:  <n> : i=v[,i=v...] ; i=v ; ...
 *   each ';'-separated group is applied with chan_set on the inputs and then
 *   bay_propagate() is called; v is a signed integer or N for null.
 * Output per sequence: for each group "v0 v1 .. vn-1 / dirtybits" joined by
 * " ; " where dirtybits tell which outputs the module wrote in that group. */
#include <inttypes.h>
#include <stdio.h>
#include <stdlib.h>
#include <string.h>
#include "bay.h"
#include "chan.h"
#include "common.h"
#include "sort.h"
#include "value.h"

static int
cb_written(struct chan *chan, void *arg)
{
	(void) chan;
	*(char *) arg = '1';
	return 0;
}

int
main(void)
{
	if (freopen("/dev/null", "w", stderr) == NULL)
		return 2;
	char *line = NULL;
	size_t cap = 0;
	while (getline(&line, &cap, stdin) > 0) {
		int n = 0, pos = 0;
		if (sscanf(line, "%d : %n", &n, &pos) < 1 || n < 1 || n > 256) {
			puts("BAD-INPUT");
			continue;
		}
		struct bay *bay = calloc(1, sizeof(*bay));
		bay_init(bay);
		struct chan *in = calloc((size_t) n, sizeof(struct chan));
		for (int i = 0; i < n; i++) {
			chan_init(&in[i], CHAN_SINGLE, "in.%d", i);
			if (bay_register(bay, &in[i]) != 0) { puts("SETUP-FAILED"); goto next; }
		}
		struct sort *sort = calloc(1, sizeof(*sort));
		if (sort_init(sort, bay, n, "s") != 0) { puts("SETUP-FAILED"); goto next; }
		for (int i = 0; i < n; i++)
			if (sort_set_input(sort, i, &in[i]) != 0) { puts("SETUP-FAILED"); goto next; }
		/* an emit callback per output tells which outputs the module wrote */
		static char dirty[300];
		for (int i = 0; i < n; i++)
			if (bay_add_cb(bay, BAY_CB_EMIT, sort_get_output(sort, i), cb_written, &dirty[i], 1) == NULL) {
				puts("SETUP-FAILED"); goto next;
			}

		char *save = NULL;
		int firstgroup = 1;
		for (char *grp = strtok_r(line + pos, ";\n", &save); grp; grp = strtok_r(NULL, ";\n", &save)) {
			char *s2 = NULL;
			int any = 0;
			for (char *as = strtok_r(grp, ", ", &s2); as; as = strtok_r(NULL, ", ", &s2)) {
				int idx;
				char val[64];
				if (sscanf(as, "%d=%63s", &idx, val) != 2 || idx < 0 || idx >= n)
					continue;
				struct value v = val[0] == 'N' ? value_null() : value_int64(strtoll(val, NULL, 10));
				if (chan_set(&in[idx], v) != 0) {
					printf("%sERR-chan_set", firstgroup ? "" : " ; ");
					goto endline;
				}
				any = 1;
			}
			if (!any)
				continue;
			for (int i = 0; i < n; i++)
				dirty[i] = '0';
			dirty[n] = '\0';
			if (bay_propagate(bay) != 0) {
				printf("%sERR-propagate", firstgroup ? "" : " ; ");
				goto endline;
			}
			printf("%s", firstgroup ? "" : " ; ");
			firstgroup = 0;
			for (int i = 0; i < n; i++) {
				struct value o;
				if (chan_read(sort_get_output(sort, i), &o) != 0) {
					printf("ERR-read");
					goto endline;
				}
				if (o.type == VALUE_NULL)
					printf("N ");
				else
					printf("%" PRIi64 " ", o.i);
			}
			printf("/ %s", dirty);
		}
endline:
		printf("\n");
next:
		;
	}
	return 0;
}
