/* task_harness: drives the real task.c/body.c with operation sequences.
 * Input: one sequence per line:
 *    <flagsA> <flagsB> <flagsC> : <op><task><body><stack> <op><task><body><stack> ...
 * where flags are decimal TASK_FLAG_* masks, op in {x,p,r,e}, task in
 * {A,B,C}, body a digit (1..9), stack a digit (0..2); a body id above 9 is
 * written <op><task>#<number>/<stack>.
 * Output: one line per sequence with the return code of each op until (and
 * including) the first failing one: e.g. "0 0 -1".  stderr is silenced. */
#include <stdio.h>
#include <stdlib.h>
#include <string.h>
#include "task.h"

int
main(void)
{
	/* TASK_IDS=a,b,c: the ids of tasks A, B and C (default 10,20,30) */
	unsigned long ids[3] = { 10, 20, 30 };
	const char *e = getenv("TASK_IDS");
	if (e != NULL && sscanf(e, "%lu,%lu,%lu", &ids[0], &ids[1], &ids[2]) != 3)
		return 2;
	if (freopen("/dev/null", "w", stderr) == NULL)
		return 2;
	char *line = NULL;
	size_t cap = 0;
	while (getline(&line, &cap, stdin) > 0) {
		struct task_info info;
		struct task_stack stacks[3];
		memset(&info, 0, sizeof(info));
		memset(stacks, 0, sizeof(stacks));
		unsigned fa, fb, fc;
		int pos = 0;
		if (sscanf(line, "%u %u %u : %n", &fa, &fb, &fc, &pos) < 3) {
			puts("BAD-INPUT");
			continue;
		}
		if (task_type_create(&info, 1, "type one") != 0 ||
				task_type_create(&info, 2, "type two") != 0 ||
				task_create(&info, 1, (uint32_t) ids[0], fa) != 0 ||
				task_create(&info, 2, (uint32_t) ids[1], fb) != 0 ||
				task_create(&info, 1, (uint32_t) ids[2], fc) != 0) {
			puts("SETUP-FAILED");
			continue;
		}
		char *p = line + pos;
		int first = 1;
		while (*p && *p != '\n') {
			if (*p == ' ') { p++; continue; }
			char op = p[0], tk = p[1];
			uint32_t body;
			int st;
			if (p[2] == '#') {
				char *end;
				body = (uint32_t) strtoul(p + 3, &end, 10);
				st = end[1] - '0';
				p = end + 2;
			} else {
				body = (uint32_t) (p[2] - '0');
				st = p[3] - '0';
				p += 4;
			}
			uint32_t id = (uint32_t) (tk == 'A' ? ids[0] : tk == 'B' ? ids[1] : ids[2]);
			struct task *task = task_find(info.tasks, id);
			int ret;
			switch (op) {
				case 'x': ret = task_execute(&stacks[st], task, body); break;
				case 'p': ret = task_pause(&stacks[st], task, body); break;
				case 'r': ret = task_resume(&stacks[st], task, body); break;
				case 'e': ret = task_end(&stacks[st], task, body); break;
				default: ret = -99; break;
			}
			printf(first ? "%d" : " %d", ret);
			first = 0;
			if (ret != 0)
				break;
		}
		/* report what the module says is running on each stack */
		for (int i = 0; i < 3; i++) {
			struct body *b = task_get_running(&stacks[i]);
			printf(" | %u:%u", b ? (unsigned) task_get_id(body_get_task(b)) : 0, b ? (unsigned) body_get_id(b) : 0);
		}
		printf("\n");
	}
	return 0;
}
