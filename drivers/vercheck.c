/* vercheck: calls the real ovni_version_check_str(argv[1]); exit 0 when the
 * library accepts the version, otherwise the library aborts. */
#include <stdio.h>
#include "ovni.h"

int
main(int argc, char *argv[])
{
	if (argc != 2)
		return 98;
	ovni_version_check_str(argv[1]);
	const char *v, *c;
	ovni_version_get(&v, &c);
	printf("ACCEPTED lib=%s\n", v);
	return 0;
}
