/* vercheck: calls the real ovni_version_check_str().
 *   vercheck <version>            exit 0 when the library accepts the version,
 *                                 otherwise the library aborts.
 *   vercheck -t N ITER R v1 v2 .. N threads leave a barrier together and each
 *                                 checks the accepted versions v1.. ITER times
 *                                 (round robin); if R is not "-", thread 0
 *                                 checks R instead (it must be refused: every
 *                                 call that returns is reported). */
#include <pthread.h>
#include <stdio.h>
#include <stdlib.h>
#include <string.h>
#include "ovni.h"

#include <signal.h>
#include <unistd.h>

static pthread_barrier_t bar;
static _Thread_local long my_id = -1;

/* says which thread the library stopped (observation at the driver's
 * boundary: the wording of the library's message is not looked at) */
static void
on_abort(int sig)
{
	(void) sig;
	char buf[64];
	int n = snprintf(buf, sizeof(buf), "ABORT-IN thread=%ld\n", my_id);
	if (write(1, buf, (size_t) n) < 0)
		_exit(97);
}

static int iters, nvers;
static char **vers;
static const char *refuse;

static void *
worker(void *arg)
{
	long id = (long) arg;
	my_id = id;
	pthread_barrier_wait(&bar);
	for (int i = 0; i < iters; i++) {
		if (id == 0 && refuse != NULL) {
			ovni_version_check_str(refuse);
			printf("ACCEPTED-INCOMPATIBLE %s iteration %d\n", refuse, i);
			fflush(stdout);
			_exit(3);
		}
		ovni_version_check_str(vers[(i + (int) id) % nvers]);
	}
	return NULL;
}

int
main(int argc, char *argv[])
{
	if (argc >= 6 && strcmp(argv[1], "-t") == 0) {
		int n = atoi(argv[2]);
		iters = atoi(argv[3]);
		refuse = strcmp(argv[4], "-") == 0 ? NULL : argv[4];
		vers = argv + 5;
		nvers = argc - 5;
		pthread_t th[64];
		if (n < 1 || n > 64)
			return 98;
		struct sigaction sa;
		memset(&sa, 0, sizeof(sa));
		sa.sa_handler = on_abort;
		sa.sa_flags = (int) SA_RESETHAND;
		sigaction(SIGABRT, &sa, NULL);
		pthread_barrier_init(&bar, NULL, (unsigned) n);
		for (long i = 0; i < n; i++)
			if (pthread_create(&th[i], NULL, worker, (void *) i) != 0)
				return 98;
		for (int i = 0; i < n; i++)
			pthread_join(th[i], NULL);
		printf("ACCEPTED-ALL threads=%d iters=%d\n", n, iters);
		return 0;
	}
	/* vercheck -E <version>: the thread's errno holds a stale ERANGE (left by an
	 * unrelated conversion) when the version is checked */
	if (argc == 3 && strcmp(argv[1], "-E") == 0) {
		volatile double d = strtod("1e-320", NULL);
		volatile long l = strtol("99999999999999999999999", NULL, 10);
		(void) d; (void) l;
		ovni_version_check_str(argv[2]);
		printf("ACCEPTED with-stale-errno\n");
		return 0;
	}
	if (argc != 2)
		return 98;
	ovni_version_check_str(argv[1]);
	const char *v, *c;
	ovni_version_get(&v, &c);
	printf("ACCEPTED lib=%s\n", v);
	return 0;
}
