/* version_harness: reads lines "<want> <have>" and prints
 * "<parse_want> <parse_have> <compatible>" using the real
 * src/include/version.h.  parse_* is 0 on success, -1 on failure;
 * compatible is -1 when a string did not parse. */
#include <stdio.h>
#include <string.h>
#include "version.h"

int
main(void)
{
	char line[512];
	while (fgets(line, sizeof(line), stdin)) {
		char a[256] = {0}, b[256] = {0};
		/* fields separated by a TAB so that strings may hold blanks */
		char *tab = strchr(line, '\t');
		if (tab == NULL)
			continue;
		*tab = '\0';
		strncpy(a, line, 255);
		strncpy(b, tab + 1, 255);
		size_t lb = strlen(b);
		if (lb > 0 && b[lb - 1] == '\n')
			b[lb - 1] = '\0';
		int want[3] = {-7, -7, -7}, have[3] = {-7, -7, -7};
		int pa = version_parse(a, want);
		int pb = version_parse(b, have);
		int comp = -1;
		if (pa == 0 && pb == 0)
			comp = version_is_compatible(want, have);
		printf("%d %d %d %d.%d.%d %d.%d.%d\n", pa, pb, comp,
				want[0], want[1], want[2], have[0], have[1], have[2]);
	}
	return 0;
}
