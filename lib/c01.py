"""C01 - runtime stream fidelity.  Real libovni (ASan+UBSan build) driven by
rtdrv op scripts; the decoded stream.obs minus flush markers must equal the
client-boundary emit log."""

import os
import shutil
import subprocess

import core
import obs
import rt

MAX = obs.MAX_EV_BUF
PAYLOAD_SIZES = [0] + list(range(2, 17))


class Shadow:
    """Approximate shadow of the library's buffer fill level; used only to
    steer generated sizes towards the 2 MiB boundary, never by the oracle."""

    def __init__(self):
        self.lvl = 0
        self.autoflush = 0

    def add(self, size):
        if self.lvl + size >= MAX:
            self.lvl = 0
            self.autoflush += 1
            self.lvl += size
            for _ in range(2):
                if self.lvl + 12 >= MAX:
                    self.lvl = 0
                self.lvl += 12
        else:
            self.lvl += size

    def flush(self):
        self.lvl = 24


def rnd_payload(rng, n):
    return bytes(rng.getrandbits(8) for _ in range(n))


def rnd_split(rng, n):
    """Split n bytes into 1-3 ovni_payload_add calls of >= 2 bytes each."""
    if n < 4 or rng.random() < 0.5:
        return None
    parts = []
    left = n
    k = rng.choice([2, 3]) if n >= 6 else 2
    for i in range(k - 1):
        mx = left - 2 * (k - 1 - i)
        if mx < 2:
            break
        a = rng.randint(2, mx)
        parts.append(a)
        left -= a
    parts.append(left)
    if any(p < 2 for p in parts):
        return None
    return "+".join(str(p) for p in parts)


def rnd_clock(rng):
    r = rng.random()
    if r < 0.1:
        return rng.choice([0, 1, 2 ** 63, 2 ** 64 - 1, 2 ** 32, 2 ** 63 - 1])
    if r < 0.2:
        return "now"
    return rng.getrandbits(64)


def rnd_mcv(rng):
    # user events; avoid emitting the library's own marker code with an
    # empty payload (those would be indistinguishable from real markers)
    while True:
        m = "".join(chr(rng.randint(33, 126)) for _ in range(3))
        if m not in ("OF[", "OF]"):
            return m


def op_event(rng, sh, size=None):
    n = rng.choice(PAYLOAD_SIZES) if size is None else size
    pl = rnd_payload(rng, n)
    # order of the set_mcv / set_clock / payload_add calls (rtdrv): usual, payload first, mcv first,
    # or the previous event structure used again with only mcv and clock set anew (same payload)
    order = rng.choice(["", "", "", "", "p:", "m:", "r:"])
    last = getattr(sh, "last_pl", None)
    if order == "r:":
        if last is not None and (size is None or len(last) == n):
            pl, n = last, len(last)
        else:
            order = "p:"
    sh.last_pl = pl
    sh.add(12 + n)
    sp = order + (rnd_split(rng, n) or "")
    return "ev %s %s %s%s" % (rnd_mcv(rng), rnd_clock(rng), pl.hex() if n else "-", " " + sp if sp else "")


def op_jumbo(rng, sh, size):
    sh.add(16 + size)
    return "jumbo %s %s %d %d" % (rnd_mcv(rng), rnd_clock(rng), size, rng.randint(0, 250))


def op_mark(rng, sh):
    sh.add(24)
    v = rng.choice([1, -1, 2 ** 63 - 1, -2 ** 63, rng.getrandbits(62) + 1])
    return "mark_%s %d %d" % (rng.choice(["push", "pop", "set"]), rng.randint(0, 99), v)


def gen_boundary(rng, deltas):
    """For each delta fill the buffer to MAX-delta with one jumbo and then
    emit one event of every kind in turn (one delta x kind per refill)."""
    ops = []
    sh = Shadow()
    kinds = []
    for d in deltas:
        kind = rng.choice(["ev", "ev", "jumbo", "mark", "flush"])
        kinds.append((d, kind))
        fill = MAX - d - 16 - sh.lvl
        if fill < 0:
            ops.append("flush"); sh.flush()
            fill = MAX - d - 16 - sh.lvl
        ops.append(op_jumbo(rng, sh, fill))
        if kind == "ev":
            ops.append(op_event(rng, sh))
        elif kind == "jumbo":
            ops.append(op_jumbo(rng, sh, rng.choice([0, 1, 2, 3, 4, 5, 100, rng.randint(0, 5000)])))
        elif kind == "mark":
            ops.append(op_mark(rng, sh))
        # a few trailing small events so the markers themselves straddle
        for _ in range(rng.randint(0, 3)):
            ops.append(op_event(rng, sh))
        ops.append("flush"); sh.flush()
    return ops, sh, kinds


def gen_soup(rng, nops, big=2):
    ops = []
    sh = Shadow()
    pflush = rng.choice([0.0, 0.02, 0.1, 0.3])
    nbig = 0
    for _ in range(nops):
        r = rng.random()
        if r < pflush:
            ops.append("flush"); sh.flush()
        elif r < pflush + 0.12:
            if nbig < big and rng.random() < 0.25:
                nbig += 1
                room = MAX - sh.lvl
                size = max(0, min(MAX - 17, room - 16 + rng.randint(-40, 40)))
            else:
                size = rng.choice([0, 1, 2, 3, 4, 5, 7, 8, 100, 4096, rng.randint(0, 70000)])
            ops.append(op_jumbo(rng, sh, size))
        elif r < pflush + 0.2:
            ops.append(op_mark(rng, sh))
        elif r < pflush + 0.215:
            # the metadata API interleaved with events that are still in the buffer
            ops.append("attr_str verif.soup.k%d v%d" % (rng.randint(0, 5), rng.randint(0, 99)))
            if rng.random() < 0.7:
                ops.append("attr_flush")
        else:
            ops.append(op_event(rng, sh))
    return ops, sh


def gen_dense(rng, size):
    """Back-to-back automatic flushes: fill the 2 MiB buffer several times
    with same-size events so the boundary walks through the event."""
    ops = []
    sh = Shadow()
    n = (MAX * 2) // (12 + size) + rng.randint(0, 50)
    pl = rnd_payload(rng, size).hex() if size else "-"
    m = rnd_mcv(rng)
    for i in range(n):
        sh.add(12 + size)
        ops.append("ev %s %d %s" % (m, (i * 7919) & 0xFFFFFFFFFFFFFFFF, pl))
    return ops, sh


def make_script(sections, loom="node0", pid=100, barrier_before_free=False):
    out = ["proc 1 %s %d" % (loom, pid)]
    for tid, ops in sections:
        out.append("thread")
        out.append("init %d" % tid)
        out.append("cpu 0 0")
        out.extend(ops)
        out.append("flush")
        if barrier_before_free:
            out.append("barrier")      # all threads free (and relocate) at the same time
        out.append("free")
        out.append("end")
    out.append("fini")
    return "\n".join(out) + "\n"


def gen_case(chk, i):
    rng = chk.rng(i)
    tier = chk.tier
    info = {"case": i}
    r = i % 10
    if tier == "quick":
        ndelta = 8
    else:
        ndelta = 6
    if r in (0, 1, 2, 3):
        # boundary sweep: every delta 1..64 appears in the first 8 sweep cases
        base = (i // 10 * 4 + r) * ndelta
        deltas = [1 + ((base + k) % 64) for k in range(ndelta)]
        if rng.random() < 0.3:
            deltas[-1] = rng.randint(65, 4096)
        ops, sh, kinds = gen_boundary(rng, deltas)
        info.update(kind="boundary", deltas=deltas, kinds=[k for _, k in kinds])
        secs = [(1000 + i % 50, ops)]
    elif r in (4, 5, 6):
        ops, sh = gen_soup(rng, rng.choice([50, 400, 3000]))
        info.update(kind="soup", nops=len(ops))
        secs = [(1000 + i % 50, ops)]
    elif r == 7:
        size = PAYLOAD_SIZES[(i // 10) % len(PAYLOAD_SIZES)]
        ops, sh = gen_dense(rng, size)
        info.update(kind="dense", size=size, nops=len(ops))
        secs = [(1000 + i % 50, ops)]
    elif r == 8:
        # multi-threaded soup: each thread its own stream
        secs = []
        nth = rng.randint(2, 6)
        for t in range(nth):
            ops, sh = gen_soup(rng, rng.choice([100, 1000]), big=1)
            secs.append((2000 + t, ops))
        info.update(kind="mt-soup", threads=nth, tmpdir=(i // 10) % 2 == 0, barrier=True)
    elif (i // 10) % 2 == 0:
        ops, sh = gen_soup(rng, rng.choice([200, 2000]))
        info.update(kind="soup-shortwrite", nops=len(ops), shortwrite=rng.randint(1, 10 ** 6))
        secs = [(1000 + i % 50, ops)]
    else:
        # writes that fail with EINTR (signal without SA_RESTART): the library
        # may stop with a diagnostic, but if the program runs to the end the
        # stream must still be exact
        ops, sh = gen_soup(rng, rng.choice([50, 400]))
        info.update(kind="soup-eintr", nops=len(ops), eintr=rng.randint(1, 10 ** 6))
        secs = [(1000 + i % 50, ops)]
    info["script"] = make_script(secs, barrier_before_free=info.get("barrier", False))
    # one program in six runs without a standard input: the first stream gets descriptor 0
    info["nostdin"] = rng.random() < 1 / 6
    info["autoflush_expected"] = None
    return info


_CTX = {}


def run_case(i, script=None, info=None, wd=None):
    chk, drv = _CTX["chk"], _CTX["drv"]
    info = info or gen_case(chk, i)
    if wd is None:
        wd = os.path.join(chk.scratch, "case-%d-%d" % (os.getpid(), i))
        shutil.rmtree(wd, ignore_errors=True)
        os.makedirs(wd)
    env = {}
    if info.get("shortwrite"):
        env["RTDRV_SHORTWRITE"] = str(info["shortwrite"])
    if info.get("eintr"):
        env["RTDRV_EINTR"] = str(info["eintr"])
    if info.get("tmpdir"):
        env["OVNI_TMPDIR"] = os.path.join(wd, "tmp")
    if info.get("nostdin"):
        env["RTDRV_CLOSE_STDIN"] = "1"
    if info.get("env"):
        env.update(info["env"])
    res = rt.run_script(drv, info["script"], wd, env=env, timeout=120, wrapper=info.get("wrapper"))
    if info.get("after_run"):
        info["after_run"]()
    out = {"i": i, "kind": info["kind"], "viol": None, "inconclusive": None,
           "events": 0, "markers": 0, "bytes": 0, "feat": set(), "shortwrites": 0, "aborted_on_fault": 0}
    try:
        if res.timeout:
            out["inconclusive"] = "driver timed out"
            return out
        if res.sanitizer:
            out["viol"] = ("sanitizer:%s:%s" % (core.sanitizer_kind(res.err), core.first_repo_frame(res.err)),
                           "sanitizer report while emitting", res.brief())
            return out
        if res.rc in (97, 98):
            raise core.HarnessError("rtdrv harness error: " + res.err[-500:])
        if (info.get("eintr") or info.get("fault_expected")) and res.sig == 6 and res.err.strip():
            out["aborted_on_fault"] = 1      # terminated with a diagnostic: allowed, nothing to compare
            return out
        if res.rc != 0 or "RTDRV-DONE" not in res.out:
            out["viol"] = ("driver-died:rc=%s:sig=%s" % (res.rc, res.sig),
                           "library terminated a program that only used accepted API calls", res.brief())
            return out
        if "shortwrites=" in res.out:
            out["shortwrites"] = int(res.out.split("shortwrites=")[1].split()[0])
        sdirs = obs.find_streams(os.path.join(wd, "trace"))
        logs = sorted(os.listdir(os.path.join(wd, "log")), key=lambda s: int(s.split(".")[0]))
        bytid = {}
        for lg in logs:
            recs = rt.parse_log(os.path.join(wd, "log", lg))
            tid = [r.tid for r in recs if r.kind == "init"][0]
            bytid[tid] = recs
        if len(sdirs) != len(bytid):
            out["viol"] = ("stream-count", "found %d stream dirs for %d threads" % (len(sdirs), len(bytid)), {})
            return out
        for sd in sdirs:
            tid = int(os.path.basename(sd).split(".")[1])
            recs = bytid.get(tid)
            if recs is None:
                out["viol"] = ("foreign-stream", "stream %s belongs to no thread" % sd, {})
                return out
            with open(os.path.join(sd, "stream.obs"), "rb") as f:
                data = f.read()
            out["bytes"] += len(data)
            try:
                evs = obs.decode(data)
            except obs.DecodeError as ex:
                out["viol"] = ("not-tiled:" + ex.msg.split("(")[0].strip(),
                               "stream.obs is not a header plus an exact tiling of events: %s" % ex, {})
                return out
            msg = rt.compare_stream(evs, recs)
            if msg:
                out["viol"] = ("stream-differs:" + msg.split(":")[0].split(" differs")[0][:40].strip().replace(" ", "-"),
                               msg, {})
                return out
            nm = sum(1 for e in evs if rt.is_flush_marker(e))
            out["markers"] += nm
            out["events"] += len(evs) - nm
            # features seen in the decoded stream (evidence of reach)
            pos = 8
            for e in evs:
                ln = len(e.raw)
                a, b = pos // MAX, (pos + ln - 1) // MAX
                if rt.is_flush_marker(e):
                    out["feat"].add(("marker",))
                else:
                    out["feat"].add(("size", "J" if e.jumbo else "N", min(len(e.payload), 17)))
                pos += ln
        return out
    finally:
        if out["viol"] is None or True:
            shutil.rmtree(wd, ignore_errors=True)


def _worker(i):
    return run_case(i)


def run_aligned(k):
    """A stream whose size is an exact multiple of a block size (512 B .. 1 MiB),
    written directly or relocated from OVNI_TMPDIR."""
    chk, drv = _CTX["chk"], _CTX["drv"]
    rng = chk.rng(k, "aligned")
    mult = [512, 1024, 4096, 65536, 1 << 20][k % 5]
    ops, sh = gen_soup(rng, rng.choice([20, 200, 1500]), big=1)
    script = make_script([(1000 + k % 50, ops)])
    al = rt.align_script(drv, script, mult, chk.scratch, before="\0")
    if al is None:
        return {"i": k, "kind": "aligned", "viol": None, "inconclusive": "could not measure the stream to align it",
                "events": 0, "markers": 0, "bytes": 0, "feat": set(), "shortwrites": 0, "aborted_on_fault": 0}
    info = {"case": k, "kind": "aligned", "script": al[0], "tmpdir": rng.random() < 0.6, "autoflush_expected": None,
            "nostdin": False}
    out = run_case(200000 + k, info=info)
    out["i"] = k
    if out["viol"] is None and not out["inconclusive"] and out["bytes"] % mult:
        out["inconclusive"] = "stream of %d bytes is not a multiple of %d" % (out["bytes"], mult)
    out["aligned_script"] = al[0] if out["viol"] else None
    return out


SEG_KINDS = ["ev", "jumbo", "mark", "none", "attr"]      # attr: events followed by ovni_attr_flush() before the flush


def segment_scripts():
    """Every sequence of one to three flush-separated segments in which each
    segment holds operations of one kind only (events, jumbos, marks, nothing),
    ended by a flush or by the free alone."""
    import itertools
    out = []
    for n in (1, 2, 3):
        for kinds in itertools.product(SEG_KINDS, repeat=n):
            # the statement speaks of a thread that "has flushed and been freed":
            # what is emitted after the last flush is out of its scope
            out.append((kinds, True))
    return out


def run_segments(k):
    chk, drv = _CTX["chk"], _CTX["drv"]
    kinds, last_flush = segment_scripts()[k]
    rng = chk.rng(k, "segments")
    sh = Shadow()
    ops = []
    for j, kind in enumerate(kinds):
        for _ in range(rng.randint(1, 4) if kind != "none" else 0):
            if kind in ("ev", "attr"):
                ops.append(op_event(rng, sh))
            elif kind == "jumbo":
                ops.append(op_jumbo(rng, sh, rng.choice([0, 1, 5, 100, 3000])))
            else:
                ops.append(op_mark(rng, sh))
        if kind == "attr":
            ops.append("attr_str verif.seg.k%d value-%d" % (j, k))
            ops.append("attr_flush")
            if rng.random() < 0.5:
                ops.append(op_event(rng, sh))
        if j < len(kinds) - 1 or last_flush:
            ops.append("flush"); sh.flush()
    script = make_script([(1000 + k % 50, ops)])
    if not last_flush:
        # make_script always flushes before free: drop that one
        lines = script.rstrip("\n").split("\n")
        idx = max(i for i, l in enumerate(lines) if l == "flush")
        del lines[idx]
        script = "\n".join(lines) + "\n"
    info = {"case": k, "kind": "segments", "script": script, "tmpdir": k % 3 == 0, "autoflush_expected": None, "nostdin": False}
    out = run_case(300000 + k, info=info)
    out["i"] = k
    out["seg"] = "%s%s" % ("|".join(kinds), "" if last_flush else " (no last flush)")
    out["seg_script"] = script if out["viol"] else None
    return out


def run_rerun(k):
    """The program is run twice into the same trace directory with the same loom, pid
    and thread ids (a job restarted without removing the old trace): what is in
    the directory afterwards must be the second run's streams, exactly."""
    chk, drv = _CTX["chk"], _CTX["drv"]
    rng = chk.rng(k, "rerun")
    sizes = [(1500, 60), (60, 1500), (300, 300), (40, 40)][k % 4]      # longer first, shorter first, similar
    wd = os.path.join(chk.scratch, "rerun-%d-%d" % (os.getpid(), k))
    shutil.rmtree(wd, ignore_errors=True)
    os.makedirs(wd)
    info = None
    # two runs in eight: the trace directory and OVNI_TMPDIR are two freshly made file systems (two tmpfs in
    # a private mount namespace).  The first job writes directly, the second through OVNI_TMPDIR: both file
    # systems hand out the same inode numbers in the same order, so the temporary files of the second job
    # and the files the first one left carry equal inode numbers on different devices
    twofs = (k % 8) in (5, 6)
    holder = None
    wrapper = None
    try:
        if twofs:
            for d in ("A", "B"):
                os.makedirs(os.path.join(wd, d))
            holder = subprocess.Popen(["unshare", "-m", "sh", "-c",
                                       "mount -t tmpfs none %s/A && mount -t tmpfs none %s/B && echo ready && exec sleep 600"
                                       % (wd, wd)], stdout=subprocess.PIPE, stderr=subprocess.DEVNULL)
            if holder.stdout.readline().strip() != b"ready":
                holder.kill(); holder.wait(); holder = None
                return {"i": k, "kind": "rerun", "viol": None, "inconclusive": "cannot mount tmpfs in a private mount namespace",
                        "events": 0, "markers": 0, "bytes": 0, "feat": set(), "shortwrites": 0, "aborted_on_fault": 0}
            wrapper = ["nsenter", "-t", str(holder.pid), "-m"]
        for run, nops in enumerate(sizes):
            ops, sh = gen_soup(rng, nops, big=0)
            script = make_script([(1000 + k % 50, ops)])
            info = {"case": k, "kind": "rerun", "script": script, "tmpdir": (k // 4) % 2 == 1 and not twofs,
                    "autoflush_expected": None, "nostdin": False}
            if twofs:
                info["wrapper"] = wrapper
                info["env"] = {"OVNI_TRACEDIR": os.path.join(wd, "B", "ovni"), "OVNI_TMPDIR": os.path.join(wd, "A", "tmp")}
                info["after_run"] = lambda: subprocess.call(wrapper + ["cp", "-r", os.path.join(wd, "B", "ovni"),
                                                                      os.path.join(wd, "trace")])
            if run == 0:
                env = {"OVNI_TMPDIR": os.path.join(wd, "tmp")} if info["tmpdir"] else {}
                if twofs:
                    env = {"OVNI_TRACEDIR": os.path.join(wd, "B", "ovni")}
                r = rt.run_script(drv, script, wd, env=env, timeout=120, wrapper=wrapper)
                if r.rc != 0 or "RTDRV-DONE" not in r.out:
                    return {"i": k, "kind": "rerun", "viol": ("driver-died:rerun-first", "first run died", r.brief()),
                            "inconclusive": None, "events": 0, "markers": 0, "bytes": 0, "feat": set(), "shortwrites": 0,
                            "aborted_on_fault": 0, "rerun_script": script}
                shutil.rmtree(os.path.join(wd, "log"), ignore_errors=True)
        out = run_case(400000 + k, info=info, wd=wd)
        out["i"] = k
        out["rerun_script"] = info["script"] if out["viol"] else None
        if twofs:
            out["feat"] = set(out["feat"]) | {"two-file-systems-equal-inodes"}
        return out
    finally:
        if holder is not None:
            holder.kill(); holder.wait()
        shutil.rmtree(wd, ignore_errors=True)


def run_fsize(k):
    """A file size limit (quota) strikes while the stream is relocated from OVNI_TMPDIR: the limit is set
    after the last flush, just before ovni_thread_free, a few bytes (1 .. a little over a stdio block ..
    70000) below the size of the stream.  The library may stop the program with a diagnostic; if the
    program ends normally the stream in the trace directory must be what was emitted."""
    chk, drv = _CTX["chk"], _CTX["drv"]
    rng = chk.rng(k, "fsize")
    wd = os.path.join(chk.scratch, "fsize-%d-%d" % (os.getpid(), k))
    out0 = {"i": k, "kind": "fsize", "viol": None, "inconclusive": None, "events": 0, "markers": 0, "bytes": 0,
            "feat": set(), "shortwrites": 0, "aborted_on_fault": 0}
    jsz = rng.choice([200000, 300000, 1048576])        # (the driver's own emit log must stay below the limit)
    ops = ["ev OHx 1000 %s" % obs.i32(0, 1000, 0).hex(), "jumbo OB. now %d 5" % jsz] + \
          ["ev OB. now %04x" % j for j in range(rng.randint(1, 300))] + ["ev OHe now -"]
    delta = [1, 100, 4095, 4097, rng.randint(2, 2000), 70000][k % 6]
    try:
        size = None
        for run in range(2):
            shutil.rmtree(wd, ignore_errors=True)
            os.makedirs(wd)
            o = list(ops)
            if run == 1:
                if delta >= size:
                    out0["inconclusive"] = "stream smaller than the margin"; return out0
                o += ["flush", "fsize %d" % (size - delta)]
            # (not make_script: its extra flush would write the markers of the previous one to the
            # temporary stream after the limit is in force)
            script = "\n".join(["proc 1 node0 100", "thread", "init 1000", "cpu 0 0"] + o
                               + (["flush"] if run == 0 else []) + ["free", "end", "fini"]) + "\n"
            info = {"case": k, "kind": "fsize", "script": script, "tmpdir": True, "autoflush_expected": None,
                    "nostdin": False, "eintr": 0, "fault_expected": run == 1}
            if run == 0:
                r = rt.run_script(drv, script, wd, env={"OVNI_TMPDIR": os.path.join(wd, "tmp")}, timeout=120)
                sd = obs.find_streams(os.path.join(wd, "trace"))
                if r.rc != 0 or len(sd) != 1:
                    out0["inconclusive"] = "measuring run failed"; return out0
                size = os.path.getsize(os.path.join(sd[0], "stream.obs"))
        out = run_case(500000 + k, info=info, wd=wd)
        out["i"] = k
        out["fsize_script"] = script if out["viol"] else None
        return out
    finally:
        shutil.rmtree(wd, ignore_errors=True)


POW2_TARGETS = [4096, 65536, 524288, 1048576, 2097152 - 4096]


def run_pow2(k):
    """Explicit flushes at the moment the buffer holds exactly (or one byte around) a power of two: first
    with a fresh buffer (OHx + one jumbo), then with the two markers of the previous flush in front."""
    target = POW2_TARGETS[k // 3 % len(POW2_TARGETS)] + (k % 3) - 1
    ops = ["ev OHx 1000 %s" % obs.i32(0, 1000, 0).hex(), "jumbo OB. now %d 3" % (target - 24 - 16), "flush",
           "jumbo OB. now %d 4" % (target - 24 - 16), "flush", "ev OB. now 0102", "ev OHe now -"]
    info = {"case": k, "kind": "pow2-flush", "script": make_script([(1000, ops)]), "tmpdir": k % 2 == 1,
            "autoflush_expected": None, "nostdin": False}
    out = run_case(600000 + k, info=info)
    out["i"] = k
    out["pow2_script"] = info["script"] if out["viol"] else None
    return out


def run_huge(k):
    """One stream larger than 2 GiB (2100 jumbo events of 1 MiB), written directly
    (k even) or relocated from OVNI_TMPDIR (k odd).  The data is not compared byte
    by byte: the stream must tile exactly and hold OHx, the 2100 events of that
    size in order, OHe."""
    chk, drv = _CTX["chk"], _CTX["drv"]
    wd = os.path.join(chk.scratch, "huge-%d-%d" % (os.getpid(), k))
    shutil.rmtree(wd, ignore_errors=True)
    os.makedirs(wd)
    out = {"i": k, "kind": "huge", "viol": None, "inconclusive": None, "events": 0, "markers": 0, "bytes": 0,
           "feat": set(), "shortwrites": 0, "aborted_on_fault": 0}
    n, size = 2100, 1048576
    ops = ["ev OHx 1000 %s" % obs.i32(0, 1000, 0).hex()] + ["jumbo OB. now %d 7" % size] * n + ["ev OHe now -"]
    script = make_script([(1000, ops)])
    env = {"OVNI_TMPDIR": os.path.join(wd, "tmp")} if k % 2 else {}
    try:
        r = rt.run_script(drv, script, wd, env=env, timeout=600)
        if r.timeout:
            out["inconclusive"] = "driver timed out"; return out
        if r.sanitizer:
            out["viol"] = ("sanitizer:%s:%s" % (core.sanitizer_kind(r.err), core.first_repo_frame(r.err)),
                           "sanitizer report while writing a 2 GiB stream", r.brief()); return out
        if r.rc != 0 or "RTDRV-DONE" not in r.out:
            out["viol"] = ("driver-died:huge", "library terminated a program writing a 2 GiB stream: %s"
                           % r.err.strip().split("\n")[-1][:200], r.brief()); return out
        sd = obs.find_streams(os.path.join(wd, "trace"))
        if len(sd) != 1:
            out["viol"] = ("stream-count", "found %d stream dirs for 1 thread" % len(sd), {}); return out
        p = os.path.join(sd[0], "stream.obs")
        out["bytes"] = os.path.getsize(p)
        try:
            evs = obs.decode_file_light(p)
        except obs.DecodeError as ex:
            out["viol"] = ("not-tiled:" + ex.msg.split("(")[0].strip() + ":huge", "2 GiB stream: %s" % ex, {}); return out
        mine = [e for e in evs if not rt.is_flush_marker(e)]
        ends = [e.off for e in evs[1:]] + [out["bytes"]]
        sizes = dict((e.off, nxt - e.off) for e, nxt in zip(evs, ends))
        shape = [(e.mcv, e.jumbo) for e in mine]
        want = [("OHx", False)] + [("OB.", True)] * n + [("OHe", False)]
        bad = [e for e in mine if e.jumbo and sizes[e.off] != 16 + size]
        if shape != want or bad:
            out["viol"] = ("stream-differs:huge", "2 GiB stream holds %d events (%d jumbo of the right size), %d were emitted"
                           % (len(mine), sum(1 for e in mine if e.jumbo) - len(bad), n + 2), {}); return out
        out["events"] = len(mine)
        out["markers"] = len(evs) - len(mine)
        return out
    finally:
        shutil.rmtree(wd, ignore_errors=True)


def run_churn(k):
    """Thread churn (drivers/churndrv.c) on the ASan+UBSan build: threads that come
    and go while others start; every stream must hold exactly its own thread's
    tagged events."""
    chk = _CTX["chk"]
    rng = chk.rng(k, "churn")
    rounds, grp, nev = rng.randint(150, 300), rng.randint(2, 8), rng.choice([3, 40, 200])
    wd = os.path.join(chk.scratch, "churn-%d-%d" % (os.getpid(), k))
    shutil.rmtree(wd, ignore_errors=True)
    os.makedirs(wd)
    out = {"i": k, "kind": "churn", "viol": None, "inconclusive": None, "events": 0, "markers": 0, "bytes": 0,
           "feat": set(), "shortwrites": 0, "aborted_on_fault": 0}
    env = {"OVNI_TRACEDIR": os.path.join(wd, "trace")}
    if k % 2:
        env["OVNI_TMPDIR"] = os.path.join(wd, "tmp")
    try:
        argv = [_CTX["churn"], str(rounds), str(grp), str(nev)] + (["overlap"] if k % 4 >= 2 else [])
        if k % 3 == 0:
            argv = ["sh", "-c", 'ulimit -n 96 && exec "$@"', "sh"] + argv      # descriptors of finished threads must be given back
        r = core.run_retry(argv, env=env, cwd=wd, timeout=300)
        if r.timeout:
            out["inconclusive"] = "churn driver timed out"; return out
        if r.sanitizer:
            out["viol"] = ("sanitizer:%s:%s" % (core.sanitizer_kind(r.err), core.first_repo_frame(r.err)),
                           "sanitizer report while threads come and go", r.brief()); return out
        if r.rc != 0 or "CHURN-DONE" not in r.out:
            out["viol"] = ("driver-died:churn", "library terminated a program whose threads come and go: rc=%s sig=%s %s"
                           % (r.rc, r.sig, r.err.strip().split("\n")[-1][:200]), r.brief()); return out
        n, v = rt.churn_check(env["OVNI_TRACEDIR"], nev)
        out["events"] = n * nev
        if v:
            out["viol"] = (v[0], v[1], {"rounds": rounds, "group": grp, "events": nev})
        elif n != rounds * (grp + 1):
            out["viol"] = ("churn:stream-count", "%d streams for %d threads" % (n, rounds * (grp + 1)), {})
        return out
    finally:
        shutil.rmtree(wd, ignore_errors=True)


def run_multiproc(k):
    """Several processes (as MPI ranks on one or more nodes do) write into the
    same trace directory at the same time: same pid on different looms, or
    different pids on one loom, the same thread ids in each.  Every stream of
    every process must hold exactly what its thread emitted."""
    import concurrent.futures as cf
    chk, drv = _CTX["chk"], _CTX["drv"]
    rng = chk.rng(k, "multiproc")
    nproc = rng.randint(2, 3)
    layout = rng.choice(["same-pid-other-loom", "other-pid-same-loom", "mixed"])
    procs = []
    for p in range(nproc):
        loom = "node%d" % (p if layout != "other-pid-same-loom" else 0)
        pid = 100 + (p if layout != "same-pid-other-loom" else 0)
        if layout == "mixed" and p == nproc - 1:
            loom, pid = "node0", 100 + p
        nth = rng.randint(1, 3)
        secs = []
        for t in range(nth):
            ops, sh = gen_soup(rng, rng.choice([50, 400]), big=1)
            secs.append((3000 + t, ops))
        procs.append({"loom": loom, "pid": pid, "script": make_script(secs, loom=loom, pid=pid), "tids": [3000 + t for t in range(nth)]})
    wd = os.path.join(chk.scratch, "mp-%d-%d" % (os.getpid(), k))
    shutil.rmtree(wd, ignore_errors=True)
    os.makedirs(wd)
    out = {"i": k, "kind": "multi-process", "viol": None, "inconclusive": None, "events": 0, "markers": 0, "bytes": 0,
           "feat": set(), "shortwrites": 0, "aborted_on_fault": 0, "layout": layout}
    env = {"OVNI_TRACEDIR": os.path.join(wd, "trace")}
    if rng.random() < 0.5:
        env["OVNI_TMPDIR"] = os.path.join(wd, "tmp")
    try:
        def one(p):
            pw = os.path.join(wd, "p%d" % p)
            os.makedirs(pw)
            return rt.run_script(drv, procs[p]["script"], pw, env=env, timeout=120)
        with cf.ThreadPoolExecutor(max_workers=nproc) as ex:
            results = list(ex.map(one, range(nproc)))
        for p, res in enumerate(results):
            if res.timeout:
                out["inconclusive"] = "driver timed out"; return out
            if res.rc in (97, 98):
                raise core.HarnessError("rtdrv harness error: " + res.err[-500:])
            if res.sanitizer:
                out["viol"] = ("sanitizer:%s:%s" % (core.sanitizer_kind(res.err), core.first_repo_frame(res.err)),
                               "sanitizer report while emitting", res.brief()); return out
            if res.rc != 0 or "RTDRV-DONE" not in res.out:
                out["viol"] = ("driver-died:multi-process:%s" % layout, "library terminated one of %d processes writing into "
                               "the same trace directory (%s)" % (nproc, layout), res.brief()); return out
        for p, pr in enumerate(procs):
            ldir = os.path.join(wd, "p%d" % p, "log")
            for lg in os.listdir(ldir):
                recs = rt.parse_log(os.path.join(ldir, lg))
                tid = [r.tid for r in recs if r.kind == "init"][0]
                sd = obs.stream_dir(env["OVNI_TRACEDIR"], pr["loom"], pr["pid"], tid)
                try:
                    with open(os.path.join(sd, "stream.obs"), "rb") as f:
                        data = f.read()
                except OSError:
                    out["viol"] = ("stream-missing:multi-process", "no stream.obs for loom %s pid %d thread %d"
                                   % (pr["loom"], pr["pid"], tid), {"layout": layout}); return out
                out["bytes"] += len(data)
                try:
                    evs = obs.decode(data)
                except obs.DecodeError as ex:
                    out["viol"] = ("not-tiled:" + ex.msg.split("(")[0].strip(), "multi-process (%s): stream of loom %s pid %d "
                                   "thread %d: %s" % (layout, pr["loom"], pr["pid"], tid, ex), {}); return out
                msg = rt.compare_stream(evs, recs)
                if msg:
                    out["viol"] = ("stream-differs:multi-process", "multi-process (%s): loom %s pid %d thread %d: %s"
                                   % (layout, pr["loom"], pr["pid"], tid, msg), {}); return out
                nm = sum(1 for e in evs if rt.is_flush_marker(e))
                out["markers"] += nm
                out["events"] += len(evs) - nm
        return out
    finally:
        shutil.rmtree(wd, ignore_errors=True)


def main(argv):
    chk = core.Check("C01", "exploration", argv)
    b = chk.build("asan", ["ovni"])
    drv = rt.build_rtdrv(chk, b)
    churn = os.path.join(chk.scratch, "churndrv")
    chk.cc(churn, [os.path.join(core.VERIF, "drivers", "churndrv.c")], b,
           extra=["-L", b.libdir, "-lovni", "-lpthread", "-Wl,-rpath," + b.libdir])
    _CTX.update(chk=chk, drv=drv, churn=churn)
    if chk.replay:
        import json
        rp = json.load(open(chk.replay))
        cases = [rp["replay"]["case"]] if "case" in rp["replay"] else []
        chk.seed = rp.get("seed", chk.seed)
    else:
        n = 60 if chk.tier == "quick" else 1500
        cases = list(range(n))
    tot = {"events": 0, "markers": 0, "bytes": 0, "shortwrites": 0, "aborted_on_fault": 0}
    kinds = {}
    feats = set()
    deltas_seen = set()
    evaluated = 0
    samples = []
    for out in core.pmap(_worker, cases):
        if out["inconclusive"]:
            chk.note_inconclusive(out["inconclusive"])
            continue
        evaluated += 1
        kinds[out["kind"]] = kinds.get(out["kind"], 0) + 1
        for k in tot:
            tot[k] += out[k]
        feats |= out["feat"]
        if out["viol"]:
            key, what, obsv = out["viol"]
            info = gen_case(chk, out["i"])
            chk.report(key, what, {"case": out["i"], "kind": info["kind"], "script_head": info["script"][:2000],
                                   "observation": obsv})
    if not chk.replay or "multiproc" in rp["replay"]:
        mp = [rp["replay"]["multiproc"]] if chk.replay else list(range(6 if chk.tier == "quick" else 150))
        for out in core.pmap(run_multiproc, mp, jobs=max(2, core.NCPU // 3)):
            if out["inconclusive"]:
                chk.note_inconclusive(out["inconclusive"]); continue
            evaluated += 1
            kinds[out["kind"]] = kinds.get(out["kind"], 0) + 1
            for k in tot:
                tot[k] += out[k]
            if out["viol"]:
                key, what, obsv = out["viol"]
                chk.report(key, what, {"multiproc": out["i"], "layout": out["layout"], "observation": obsv})
    if not chk.replay:
        for out in core.pmap(run_churn, list(range(24 if chk.tier == "quick" else 300)), jobs=max(2, core.NCPU // 4)):
            if out["inconclusive"]:
                chk.note_inconclusive(out["inconclusive"]); continue
            evaluated += 1
            kinds[out["kind"]] = kinds.get(out["kind"], 0) + 1
            tot["events"] += out["events"]
            if out["viol"]:
                key, what, obsv = out["viol"]
                chk.report(key, what, {"churn": out["i"], "observation": obsv})
        for out in core.pmap(run_huge, [1] if chk.tier == "quick" else [0, 1], jobs=2):
            if out["inconclusive"]:
                chk.note_inconclusive(out["inconclusive"]); continue
            evaluated += 1
            kinds[out["kind"]] = kinds.get(out["kind"], 0) + 1
            for k in tot:
                tot[k] += out[k]
            if out["viol"]:
                key, what, obsv = out["viol"]
                chk.report(key, what, {"huge": out["i"], "observation": obsv})
        for out in core.pmap(run_pow2, list(range(3 * len(POW2_TARGETS)))):
            if out["inconclusive"]:
                chk.note_inconclusive(out["inconclusive"]); continue
            evaluated += 1
            kinds[out["kind"]] = kinds.get(out["kind"], 0) + 1
            for k in tot:
                tot[k] += out[k]
            if out["viol"]:
                key, what, obsv = out["viol"]
                chk.report(key + ":pow2-flush", what + " [flush of a buffer holding a power of two of bytes]",
                           {"pow2": out["i"], "script_head": (out.get("pow2_script") or "")[:400], "observation": obsv})
        for out in core.pmap(run_fsize, list(range(6 if chk.tier == "quick" else 120))):
            if out["inconclusive"]:
                chk.note_inconclusive(out["inconclusive"]); continue
            evaluated += 1
            kinds[out["kind"]] = kinds.get(out["kind"], 0) + 1
            for k in tot:
                tot[k] += out[k]
            if out["viol"]:
                key, what, obsv = out["viol"]
                chk.report(key + ":fsize", what + " [file size limit set before ovni_thread_free, OVNI_TMPDIR]",
                           {"fsize": out["i"], "script_head": (out.get("fsize_script") or "")[:2000], "observation": obsv})
        for out in core.pmap(run_rerun, list(range(8 if chk.tier == "quick" else 120))):
            if out["inconclusive"]:
                chk.note_inconclusive(out["inconclusive"]); continue
            evaluated += 1
            kinds[out["kind"]] = kinds.get(out["kind"], 0) + 1
            for k in tot:
                tot[k] += out[k]
            if out["viol"]:
                key, what, obsv = out["viol"]
                chk.report(key + ":rerun", what + " [second run into the same trace directory]",
                           {"rerun": out["i"], "script_head": (out.get("rerun_script") or "")[:2000], "observation": obsv})
        allseg = list(range(len(segment_scripts())))
        for out in core.pmap(run_segments, allseg):
            if out["inconclusive"]:
                chk.note_inconclusive(out["inconclusive"]); continue
            evaluated += 1
            kinds[out["kind"]] = kinds.get(out["kind"], 0) + 1
            for k in tot:
                tot[k] += out[k]
            feats |= out["feat"]
            if out["viol"]:
                key, what, obsv = out["viol"]
                chk.report(key + ":segments", "%s [segments: %s]" % (what, out["seg"]),
                           {"segments": out["i"], "script_head": out["seg_script"][:2000], "observation": obsv})
        for out in core.pmap(run_aligned, list(range(10 if chk.tier == "quick" else 200))):
            if out["inconclusive"]:
                chk.note_inconclusive(out["inconclusive"]); continue
            evaluated += 1
            kinds[out["kind"]] = kinds.get(out["kind"], 0) + 1
            for k in tot:
                tot[k] += out[k]
            feats |= out["feat"]
            if out["viol"]:
                key, what, obsv = out["viol"]
                chk.report(key + ":aligned", what, {"aligned": out["i"], "script_head": out["aligned_script"][:2000],
                                                    "observation": obsv})
    for i in cases[:200]:
        info = gen_case(chk, i)
        if info["kind"] == "boundary":
            deltas_seen.update(info["deltas"])
        if len(samples) < 3 and info["kind"] in ("boundary", "soup"):
            samples.append({"case": i, "kind": info["kind"], "script_first_lines": info["script"].split("\n")[:12]})
    cov = {
        "evaluations": evaluated,
        "distinct_nontrivial": len(feats) + len(deltas_seen),
        "rule": "op scripts (boundary sweep / op soup / dense autoflush / multi-thread / short-write / EINTR / no stdin; 2-3 "
                "processes writing into one trace directory at once with equal pids on different looms or equal tids in "
                "different processes; every sequence of 1-3 flush-separated segments of one operation kind each (events, jumbos, "
                "marks, nothing); a stream larger than 2 GiB; a program run twice into one trace directory; rounds of threads that come and go while others start (churndrv); streams padded to an exact multiple of 512 B .. 1 MiB) run on the "
                "ASan+UBSan libovni; a case counts when the driver finished and every stream was decoded and compared "
                "with the emit log. distinct_nontrivial = distinct (normal|jumbo, payload size) classes seen in decoded "
                "streams + flush-marker class + distinct boundary distances delta (MAX - fill level) generated",
        "samples": samples,
        "events_compared": tot["events"],
        "flush_markers_seen": tot["markers"],
        "stream_bytes_decoded": tot["bytes"],
        "partial_writes_injected": tot["shortwrites"],
        "eintr_runs_terminated_with_diagnostic": tot["aborted_on_fault"],
        "cases_by_kind": kinds,
        "boundary_deltas_covered": sorted(deltas_seen)[:80],
        "payload_classes_seen": sorted("%s%d" % (f[1], f[2]) for f in feats if f[0] == "size"),
        "sanitizer": "address,undefined (gcc), reports fatal",
    }
    return chk.finish(cov, assumptions=[
        "the emit log written by drivers/rtdrv.c before each API call is what the program handed over",
        "lib/obs.py implements doc/user/runtime/trace_spec.md (12-byte header, size nibble, jumbo u32 size)",
        "user events with MCV OF[ / OF] and empty payload are not generated (indistinguishable from markers)"])
