"""C02 - protocol-conformant programs yield valid traces that the emulator
accepts.  rtdrv scripts that follow doc/user/runtime/index.md; independent
stream/metadata validator; then ovniemu -l on the result."""

import json
import os
import re
import shutil
import struct

import core
import emu
import obs
import rt

MAX = obs.MAX_EV_BUF


def gen_thread(rng, tid, cpu, mode, nmarks, deltas=None):
    """One conformant thread section.  All clocks are 'now'."""
    ops = ["init %d" % tid, "vercheck", "cpu %d %d" % (cpu, cpu), "require nosv 2.0.0"]
    ops.append("mark_type 1 0 verif single")
    ops.append("mark_type 2 1 verif stack")
    ops.append("ev OHx now %s" % obs.i32(cpu, tid, 0).hex())
    lvl = [12 + 12]   # steering shadow only
    info = {"targets": []}
    tcount = [0]

    def small(n=None):
        n = rng.choice([0, 2, 4, 8, 12, 16]) if n is None else n
        lvl[0] += 12 + n
        # one clock read is sometimes shared by consecutive events (equal clocks are in order)
        # (only in threads that never fill the buffer: after an automatic flush the library's own
        # markers carry a later clock than a value read before the call)
        clk = "same" if (mode == "soup" and rng.random() < 0.12 and ops
                         and ops[-1].startswith(("ev OB. now", "ev OB. same"))) else "now"
        return "ev OB. %s %s" % (clk, bytes(rng.getrandbits(8) for _ in range(n)).hex() if n else "-")

    def jumbo(total):
        # total = header(16) + data
        size = max(0, total - 16)
        lvl[0] += 16 + size
        return "jumbo OB. now %d %d" % (size, rng.randint(0, 250))

    def typejumbo():
        # nOS-V type create: u32 id + NUL terminated label as a jumbo event
        tcount[0] += 1
        return None

    def body(k):
        for _ in range(k):
            r = rng.random()
            if r < 0.5:
                ops.append(small())
            elif r < 0.6:
                ops.append("ev OU[ now -"); ops.append(small()); ops.append("ev OU] now -"); lvl[0] += 24
            elif r < 0.75:
                v = rng.randint(1, 1000)
                ops.append("mark_set 1 %d" % v); lvl[0] += 24
            elif r < 0.85:
                v = rng.randint(1, 1000)
                w = v + 1
                ops.append("mark_push 2 %d" % v); ops.append("mark_push 2 %d" % w)
                ops.append("mark_pop 2 %d" % w); ops.append("mark_pop 2 %d" % v); lvl[0] += 96
            else:
                ops.append(jumbo(16 + rng.choice([0, 1, 5, 100, 4096, rng.randint(0, 20000)])))

    if mode == "target":
        # fill level L when a jumbo of total size T arrives; the distances
        # MAX - T = 1..64 are covered systematically (deltas), not by chance
        for d in (deltas or [rng.randint(1, 64)]):
            T = MAX - d
            Lkind = rng.choice(["empty", "12", "28", "random", "half"])
            ops.append("flush"); lvl[0] = 24
            if Lkind == "empty":
                pass     # only the two markers of the flush are buffered
            elif Lkind == "12":
                ops.append(small(0))
            elif Lkind == "28":
                ops.append(small(16))
            elif Lkind == "half":
                ops.append(jumbo(MAX // 2))
            else:
                body(rng.randint(1, 30))
            info["targets"].append({"T": T, "L": lvl[0]})
            ops.append(jumbo(T))
            body(rng.randint(0, 5))
    elif mode == "dense":
        # streams of back-to-back automatic flushes
        n = rng.choice([0, 2, 8, 16])
        cnt = (MAX * rng.choice([1, 2, 3])) // (12 + n) + rng.randint(1, 100)
        pl = bytes(rng.getrandbits(8) for _ in range(n)).hex() if n else "-"
        ops.extend(["ev OB. now %s" % pl] * cnt)
    elif mode == "edge":
        # normal event / mark / OF-pair landing exactly around the limit
        d = rng.randint(1, 40)
        ops.append("flush"); lvl[0] = 24
        ops.append(jumbo(MAX - d - lvl[0]))
        body(rng.randint(1, 6))
    else:
        body(rng.randint(5, 200))
        if rng.random() < 0.5:
            ops.append("flush")
            body(rng.randint(0, 50))
    ops.append("ev OHe now -")
    ops.append("flush")
    ops.append("free")
    return ops, info


def gen_case(chk, i):
    rng = chk.rng(i)
    # thread and process ids: small, around the classic pid_max, or of seven digits (pid_max up to 4194304)
    tb = [5 * 100, 5 * 100, 32767, 65535, 999999, 3000001, 4194200][(i // 3) % 7]
    pid = [400, 400, 32768, 1000000, 4194303][(i // 5) % 5]
    mode = ["target", "target", "target", "dense", "edge", "soup", "target", "edge"][i % 8]
    nth = 1 if mode in ("dense",) or rng.random() < 0.6 else rng.randint(2, 4)
    many = (i % 16 == 13)
    if many:
        # a process with more threads than the emulator will later have file descriptors
        mode, nth = "soup", rng.randint(40, 60)
    secs = []
    infos = []
    # target cases are numbered so that 22 consecutive ones cover 1..64 (+2 random)
    tindex = (i // 8) * 4 + [0, 1, 2, 6].index(i % 8) if i % 8 in (0, 1, 2, 6) else 0
    deltas = [1 + (tindex * 3 + k) % 64 for k in range(3)]
    for t in range(nth):
        ops, inf = gen_thread(rng, tb + t, t, mode if t == 0 else "soup", 0, deltas if t == 0 else None)
        if many:
            # keep each of the many threads short
            k0 = ops.index("ev OHx now %s" % obs.i32(t, tb + t, 0).hex())
            k1 = len(ops) - 1 - ops[::-1].index("ev OHe now -")
            ops = ops[:k0 + 1] + ops[k0 + 1:min(k0 + 13, k1)] + ops[k1:]
            ops = [o for o in ops if not o.startswith("mark_p")]      # no half pairs left by the cut
        # who declares the CPUs of the loom: the first thread all of them and the others
        # none, or every thread the CPU it runs on (each list is then partial), or
        # every thread the whole list
        cpumode = ["first", "own", "first", "all"][i % 4] if nth > 1 else "first"
        if cpumode == "own":
            pass                          # gen_thread already declares cpu t t
        elif cpumode == "all" or t == 0:
            ops = [o for o in ops if not o.startswith("cpu ")]
            idx = ops.index("require nosv 2.0.0")
            ops[idx:idx] = ["cpu %d %d" % (k, k) for k in range(nth)]
        else:
            ops = [o for o in ops if not o.startswith("cpu ")]
        secs.append(ops)
        infos.append(inf)
    if nth > 1 and i % 2 == 0:
        # all threads reach ovni_thread_free (and the relocation) together
        for ops in secs:
            k = len(ops) - 1 - ops[::-1].index("free")
            ops.insert(k, "barrier")
    if i % 80 == 41:
        # a stream larger than 2 GiB (2100 jumbo events of 1 MiB), relocated from OVNI_TMPDIR
        a = ["init %d" % tb, "vercheck", "cpu 0 0", "require nosv 2.0.0", "ev OHx now %s" % obs.i32(0, tb, 0).hex()]
        a += ["jumbo OB. now 1048576 7"] * 2100
        a += ["ev OHe now -", "flush", "free"]
        secs, nth, mode = [a], 1, "huge"
        infos = [{"targets": []}]
    if i % 40 == 17:
        # one thread keeps emitting while another is silent for more than 2^31 ns (and,
        # in the other case of the tier, more than 2^32 ns): real clocks, real sleeps
        gap = 3200000 if (i // 40) % 2 == 0 else 4700000
        a = ["init %d" % tb, "vercheck", "cpu 0 0", "cpu 1 1", "require nosv 2.0.0", "ev OHx now %s" % obs.i32(0, tb, 0).hex()]
        for _ in range(gap // 100000 + 8):
            a += ["ev OB. now -", "usleep 100000"]
        a += ["ev OHe now -", "flush", "free"]
        b = ["init %d" % (tb + 1), "vercheck", "require nosv 2.0.0", "ev OHx now %s" % obs.i32(1, tb + 1, 0).hex(), "ev OB. now 0102",
             "usleep %d" % gap, "ev OB. now 0304", "ev OHe now -", "flush", "free"]
        secs, nth, mode = [a, b], 2, "gap"
        infos = [{"targets": []}]
    if i % 20 == 11:
        # two threads hand one CPU over to each other through the documented intermediate states: B runs and
        # pauses, A executes on the same CPU, B warms up while A still runs, A cools down and ends, B resumes
        a = ["init %d" % tb, "vercheck", "cpu 0 0", "cpu 1 1", "require nosv 2.0.0", "barrier",
             "ev OHx now %s" % obs.i32(0, tb, 0).hex(), "ev OB. now 0a0a", "barrier", "barrier"] + \
            (["ev OAr now %s" % obs.i32(1, tb + 1).hex()] if (i // 20) % 3 == 1 else []) + \
            ["ev OHc now -", "ev OB. now 0b0b"] + (["ev OHp now -", "ev OHr now -"] if (i // 20) % 2 else []) + \
            ["ev OHe now -", "barrier", "flush", "free"]
        b = ["init %d" % (tb + 1), "vercheck", "require nosv 2.0.0", "ev OHx now %s" % obs.i32(0, tb + 1, 0).hex(),
             "ev OB. now 0101", "ev OHp now -", "barrier", "barrier", "ev OHw now -", "barrier", "barrier",
             "ev OHr now -", "ev OB. now 0202", "ev OHe now -", "flush", "free"]
        secs, nth, mode = [a, b], 2, "handoff"
        infos = [{"targets": []}]
    out = ["proc 1 node%d %d" % (i % 3, pid)]
    for ops in secs:
        out.append("thread"); out.extend(ops); out.append("end")
    out.append("fini")
    return {"case": i, "mode": mode, "threads": nth, "ncpus": 2 if mode == "handoff" else nth, "targets": infos[0]["targets"],
            "tmpdir": (i % 5 == 4) or (nth > 1 and i % 4 == 0) or mode == "huge", "shortwrite": (i if i % 4 == 3 else 0), "nostdin": (i % 7 == 5), "script": "\n".join(out) + "\n"}


def validate_stream(sdir):
    """Independent validator of one stream directory.  Returns
    (problem or None, stats)."""
    st = {"events": 0, "markers": 0, "autoflush": 0}
    try:
        with open(os.path.join(sdir, "stream.json")) as f:
            meta = json.load(f)
    except (OSError, ValueError) as ex:
        return "metadata unreadable: %s" % ex, st
    o = meta.get("ovni", {})
    need = {"version": meta.get("version") == 3, "ovni.part": o.get("part") == "thread",
            "ovni.tid": isinstance(o.get("tid"), int) and o.get("tid") != 0,
            "ovni.pid": isinstance(o.get("pid"), int), "ovni.loom": isinstance(o.get("loom"), str),
            "ovni.app_id": isinstance(o.get("app_id"), int) and o.get("app_id") > 0,
            "ovni.require.ovni": isinstance(o.get("require", {}).get("ovni"), str),
            "ovni.finished": o.get("finished") == 1}
    for k, ok in need.items():
        if not ok:
            return "metadata incomplete: %s" % k, st
    # the identifiers in the metadata are those of the directory the stream lies in
    try:
        dtid = int(os.path.basename(sdir.rstrip("/")).split(".", 1)[1])
        dpid = int(os.path.basename(os.path.dirname(sdir.rstrip("/"))).split(".", 1)[1])
    except (IndexError, ValueError):
        dtid = dpid = None
    if dtid is not None and (o.get("tid") != dtid or o.get("pid") != dpid):
        return "metadata wrong: tid %r / pid %r in stream.json, thread.%s of proc.%s on disk" % (o.get("tid"), o.get("pid"), dtid, dpid), st
    try:
        p_ = os.path.join(sdir, "stream.obs")
        evs = obs.decode_file(p_) if os.path.getsize(p_) < (1 << 29) else obs.decode_file_light(p_)
    except obs.DecodeError as ex:
        return "not tiled: %s" % ex.msg, st
    last = 0
    open_flush = False
    for k, e in enumerate(evs):
        if e.clock < last:
            return "clock decreases at event %d (%s): %d after %d" % (k, e.mcv, e.clock, last), st
        last = e.clock
        if rt.is_flush_marker(e):
            st["markers"] += 1
            if e.mcv == "OF[":
                if open_flush:
                    return "nested flush begin marker at event %d" % k, st
                open_flush = True
            else:
                if not open_flush:
                    return "flush end marker without begin at event %d" % k, st
                open_flush = False
    if open_flush:
        return "flush begin marker never closed", st
    st["events"] = len(evs)
    st["cpus"] = len(o.get("loom_cpus", []))
    return None, st


_CTX = {}


def run_case(i):
    chk, drv, plain = _CTX["chk"], _CTX["drv"], _CTX["plain"]
    info = gen_case(chk, i)
    wd = os.path.join(chk.scratch, "case-%d" % i)
    shutil.rmtree(wd, ignore_errors=True)
    os.makedirs(wd)
    out = {"i": i, "mode": info["mode"], "viol": None, "inconclusive": None, "events": 0, "markers": 0,
           "targets": info["targets"], "threads": info["threads"]}
    env = {}
    if info.get("shortwrite"):
        # the kernel may always return short writes: still a conformant run
        env["RTDRV_SHORTWRITE"] = str(info["shortwrite"])
    if info["tmpdir"]:
        env["OVNI_TMPDIR"] = os.path.join(wd, "tmp")
        os.makedirs(env["OVNI_TMPDIR"])
    if i % 20 == 7 and info["mode"] != "huge":
        # the temporary directory IS the trace directory (OVNI_TMPDIR=ovni, or a job script that sets
        # both variables to the same place), spelled the same way or not
        env["OVNI_TMPDIR"] = [os.path.join(wd, "trace"), os.path.join(wd, "trace") + "/",
                              os.path.join(wd, ".", "trace")][(i // 20) % 3]
        out["mode"] += "+tmpdir-is-tracedir"
    if info.get("nostdin"):
        env["RTDRV_CLOSE_STDIN"] = "1"
    try:
        if i % 9 == 4 and info["mode"] != "huge" and info["threads"] < 40:
            # a previous job left its trace in the same directory: same loom, pid and thread ids,
            # longer streams (a restarted job, or thread ids the kernel hands out again)
            prev = [l if not l.startswith("proc ") else l for l in info["script"].split("\n") if l.startswith("proc ")]
            for tid in re.findall(r"^init (\d+)$", info["script"], re.M):
                prev += ["thread", "init " + tid, "cpu 0 0", "ev OHx now %s" % obs.i32(0, int(tid), 0).hex(),
                         "bulk 3000", "jumbo OB. now 70000 3", "ev OHe now -", "flush", "free", "end"]
            prev.append("fini")
            r0 = rt.run_script(drv, "\n".join(prev) + "\n", wd, env=env, timeout=120)
            if r0.rc != 0 or "RTDRV-DONE" not in r0.out:
                out["inconclusive"] = "previous-job run failed"; return out
            shutil.rmtree(os.path.join(wd, "log"), ignore_errors=True)
            out["mode"] += "+previous-job"
        res = rt.run_script(drv, info["script"], wd, env=env, timeout=120)
        if res.timeout:
            out["inconclusive"] = "driver timeout"; return out
        if res.rc in (97, 98):
            raise core.HarnessError("rtdrv: " + res.err[-400:])
        if res.sanitizer:
            out["viol"] = ("sanitizer:%s:%s" % (core.sanitizer_kind(res.err), core.first_repo_frame(res.err)),
                           "sanitizer report in a conformant program", res.brief()); return out
        if res.rc != 0 or "RTDRV-DONE" not in res.out:
            out["viol"] = ("driver-died:rc=%s:sig=%s" % (res.rc, res.sig),
                           "library aborted a conformant program", res.brief()); return out
        tdir = os.path.join(wd, "trace")
        sdirs = obs.find_streams(tdir)
        if len(sdirs) != info["threads"]:
            out["viol"] = ("stream-count", "%d streams for %d threads" % (len(sdirs), info["threads"]), {}); return out
        cpus = 0
        for sd in sdirs:
            prob, st = validate_stream(sd)
            if prob:
                cls = prob.split(" at event")[0].split(":")[0]
                out["viol"] = ("invalid-stream:" + cls.replace(" ", "-"), prob, {"stream": os.path.relpath(sd, tdir)})
                return out
            out["events"] += st["events"]; out["markers"] += st["markers"]
            cpus += st.get("cpus", 0)
        if cpus == 0:
            out["viol"] = ("metadata-incomplete:no-loom-cpus", "no stream of the loom carries loom_cpus", {}); return out
        # every CPU some thread declared must be in the union of the metadata
        declared = set()
        for sd in sdirs:
            try:
                m = json.load(open(os.path.join(sd, "stream.json")))
                declared.update(c["index"] for c in m.get("ovni", {}).get("loom_cpus", []))
            except (OSError, ValueError, KeyError, TypeError):
                pass
        missing = sorted(set(range(info.get("ncpus", info["threads"]))) - declared)
        if missing:
            out["viol"] = ("metadata-incomplete:cpus-dropped", "CPUs %s were declared with ovni_add_cpu but are in no stream's "
                           "metadata" % missing[:8], {}); return out
        r = emu.emu(plain, tdir, ["-l"], timeout=120, nofile=32 if info["threads"] >= 40 else None)
        if r.timeout:
            out["inconclusive"] = "emulator timeout"; return out
        if not emu.accepted(r):
            out["viol"] = ("emulator-rejects-valid-trace", "ovniemu -l rejected a trace that passed the validator: "
                           + emu.last_error(r), r.brief()); return out
        return out
    finally:
        shutil.rmtree(wd, ignore_errors=True)


def classify(info_targets):
    """F1 class: a jumbo whose total size lies in [MAX-12, MAX-1] arriving
    at a non-empty buffer."""
    return any(t["T"] >= MAX - 12 and t["L"] > 0 for t in info_targets)


def main(argv):
    chk = core.Check("C02", "exploration", argv)
    asan = chk.build("asan", ["ovni"])
    plain = chk.build("plain", ["ovniemu"])
    drv = rt.build_rtdrv(chk, asan)
    _CTX.update(chk=chk, drv=drv, plain=plain)
    if chk.replay:
        rp = json.load(open(chk.replay))
        chk.seed = rp.get("seed", chk.seed)
        cases = [rp["replay"]["case"]]
    else:
        cases = list(range(80 if chk.tier == "quick" else 1600))
    ev = mk = evaluated = 0
    modes = {}
    TL = set()
    for out in core.pmap(run_case, cases):
        if out["inconclusive"]:
            chk.note_inconclusive(out["inconclusive"]); continue
        evaluated += 1
        modes[out["mode"]] = modes.get(out["mode"], 0) + 1
        ev += out["events"]; mk += out["markers"]
        for t in out["targets"]:
            TL.add((MAX - t["T"], min(t["L"], 64)))
        if out["viol"]:
            key, what, o = out["viol"]
            if key.startswith("invalid-stream:nested-flush") and classify(out["targets"]):
                key = "jumbo-total-in-[MAX-12,MAX-1]-with-nonempty-buffer:nested-OF-markers"
            info = gen_case(chk, out["i"])
            chk.report(key, what, {"case": out["i"], "mode": info["mode"], "targets": info["targets"],
                                   "observation": o, "script_head": info["script"][:1500]})
    samples = []
    for i in cases[:3]:
        info = gen_case(chk, i)
        samples.append({"case": i, "mode": info["mode"], "targets": info["targets"],
                        "script_first_lines": info["script"].split("\n")[:14]})
    cov = {"evaluations": evaluated, "distinct_nontrivial": len(TL) + len(modes),
           "rule": "conformant rtdrv programs (all clocks from ovni_clock_now) run on ASan+UBSan libovni, each stream "
                   "checked by the independent validator (header, tiling, clocks, OF pairing, metadata) and the trace "
                   "by the plain ovniemu -l. distinct_nontrivial = distinct (MAX - jumbo total size, fill level class) "
                   "pairs at which a near-capacity jumbo arrived + distinct workload modes",
           "samples": samples, "events_validated": ev, "flush_markers_seen": mk, "cases_by_mode": modes,
           "jumbo_boundary_pairs": len(TL)}
    return chk.finish(cov, assumptions=[
        "conformance is defined by doc/user/runtime/index.md; OB. (burst) events with arbitrary payloads and jumbo "
        "data are treated as legal user events", "lib/obs.py reads the trace specification correctly"])
