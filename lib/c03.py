"""C03 - one time-ordered, loss-free replay.  Streams of uniquely numbered
OM= marks: thread.prv type-100 lines are the emulator's replay log, ovnidump
-x stdout the dump tool's; both are checked against the merge specification
(permutation, per-stream order, non-decreasing corrected time, Paraver time =
corrected - first corrected, independence from directory enumeration order).
Plus an ASan+UBSan harness over src/include/heap.h."""

import itertools
import json
import os
import shutil
import struct
import tempfile

import core
import emu
import obs
import pv

MARK_META = {"ovni": {"mark": {"0": {"title": "replay id", "chan_type": "single"}}}}


def gen_case(chk, i):
    rng = chk.rng(i)
    nlooms = rng.choice([1, 1, 2, 3, 4])
    # several looms may live on one host (same hostname = name up to the first
    # dot): the offset of a host applies to all of them
    nhosts = rng.randint(1, nlooms)
    # node clocks a few hundred microseconds apart, or (boot-time clocks) seconds, hours or months apart: the
    # table brings them together, so whatever the raw distance the corrected clocks are what counts
    def host_offset(h):
        if h == 0 and rng.random() < 0.5:
            return 0
        if rng.random() < 0.3:
            return -rng.choice([2 ** 32 + 5, 3600 * 10 ** 9 - 7, 3600 * 10 ** 9 + 10 ** 6, 37 * 10 ** 11,
                                86400 * 10 ** 9, 9 * 10 ** 15]) - rng.randint(0, 1000)
        return rng.randint(-400000, 400000)
    hostoff = [host_offset(h) for h in range(nhosts)]
    looms = []
    # host names: plain, or (one case in three) a family in which one name is a prefix
    # of the next (node1, node10, node100), the shortest being the reference node
    hostnames = ["h%d" % h for h in range(nhosts)]
    if rng.random() < 0.35:
        hostnames = rng.choice([["node1", "node10", "node100", "node1-b"], ["n", "n0", "n00", "n0a"], ["ab", "abc", "abcd", "a"]])[:nhosts]
    for l in range(nlooms):
        h = l % nhosts
        looms.append({"name": "%s.%s%d" % (hostnames[h], rng.choice(["a", "node", "x.y"]), l), "host": hostnames[h], "off": hostoff[h]})
    # ranks on every process (looms then sort by minimum rank, not by name),
    # placed cyclically over the looms
    with_ranks = rng.random() < 0.4
    nstreams = rng.randint(1, 12) if rng.random() < 0.9 else rng.randint(30, 120)   # now and then a wide merge
    # spans beyond 2^31 and 2^32 ns matter: anything that narrows the 64-bit
    # clock difference only misbehaves when stream heads are seconds apart
    span = rng.choice([5, 50, 2000, 10 ** 6, 3 * 10 ** 9, 5 * 10 ** 9, 10 ** 10, 10 ** 12])
    pool = sorted(rng.randint(10 ** 6, 10 ** 6 + span) for _ in range(rng.randint(2, 40)))
    # virtual time may start at zero: the earliest corrected clock of the trace is exactly 0
    zero = rng.random() < 0.2 and all(l["off"] <= 0 for l in looms)
    if zero:
        pool = sorted(set([0] + [rng.randint(0, span) for _ in range(rng.randint(2, 40))]))
    streams = []
    uid = 0
    tid = 1000
    equal_first = rng.random() < 0.3
    for s in range(nstreams):
        lm = rng.randrange(nlooms)
        n = rng.choice([0, 1, 2, rng.randint(0, 60), rng.randint(0, 60), rng.randint(0, 60),
                        rng.randint(200, 3000) if rng.random() < 0.3 else 5])
        cl = sorted(rng.choice(pool) for _ in range(n + 2))
        if equal_first or (zero and s == 0):
            cl[0] = pool[0]
        evs = []
        off = looms[lm]["off"]
        evs.append([cl[0] - off, "OHx", obs.i32(-1, tid, 0).hex(), 0])
        for k in range(n):
            uid += 1
            evs.append([cl[1 + k] - off, "OM=", (obs.i64(uid) + obs.i32(0)).hex(), uid])
        evs.append([cl[-1] - off, "OHe", "", 0])
        streams.append({"loom": lm, "pid": 10 + (s % 3) + 10 * lm, "tid": tid, "events": evs})
        tid += rng.choice([1, 1, 7])
    if with_ranks:
        procs = sorted(set((s["loom"], s["pid"]) for s in streams), key=lambda x: (x[1] % 3, x[0]))
        order = sorted(range(len(procs)), key=lambda k: (k % nlooms, k))
        rank = {}
        r = 0
        # cyclic placement: rank 0 on loom 0, rank 1 on loom 1, ...
        byloom = {}
        for lp in procs:
            byloom.setdefault(lp[0], []).append(lp)
        k = 0
        while any(byloom.values()):
            for lm in sorted(byloom):
                if byloom[lm]:
                    rank[byloom[lm].pop(0)] = r; r += 1
        for s in streams:
            s["rank"] = rank[(s["loom"], s["pid"])]
            s["nranks"] = r
    rng.shuffle(streams)   # creation order on disk
    return {"case": i, "looms": looms, "streams": streams, "table": rng.choice(["file", "-c", "file"]),
            "table_blank_lines": rng.getrandbits(6) if rng.random() < 0.35 else 0,
            "empty_stream": rng.random() < 0.3}


def write_case(case, d, order=None, with_empty=False):
    order = list(range(len(case["streams"]))) if order is None else order
    app = {}
    for k in order:
        s = case["streams"][k]
        lm = case["looms"][s["loom"]]
        meta = obs.thread_meta(s["tid"], s["pid"], lm["name"], app_id=1 + s["pid"] % 5,
                               cpus=[(0, 0)], extra=MARK_META, rank=s.get("rank"), nranks=s.get("nranks"))
        evs = [(c, m, bytes.fromhex(p)) for (c, m, p, _) in s["events"]]
        obs.write_stream(d, lm["name"], s["pid"], s["tid"], meta, evs)
    if with_empty:
        lm = case["looms"][0]
        obs.write_stream(d, lm["name"], 10, 999999, obs.thread_meta(999999, 10, lm["name"], cpus=[(0, 0)]), [])
    os.makedirs(os.path.join(d, "cfg"), exist_ok=True)
    lines = ["offset table"]
    seen_hosts = set()
    for k, lm in enumerate(case["looms"]):
        used = any(s["loom"] == k for s in case["streams"])
        if lm["off"] != 0 and used and lm["host"] not in seen_hosts:
            seen_hosts.add(lm["host"])
            lines.append("%d %s %d %d 0.0" % (k, lm["host"], lm["off"], lm["off"]))
    args = []
    if len(lines) > 1 and case.get("table_blank_lines"):
        # empty lines between the entries (hand-edited or concatenated tables)
        spaced = [lines[0]]
        for k, l in enumerate(lines[1:]):
            if (case["table_blank_lines"] >> k) & 1:
                spaced.append("")
            spaced.append(l)
        lines = spaced + [""]
    if len(lines) > 1:
        if case["table"] == "file":
            with open(os.path.join(d, "clock-offsets.txt"), "w") as f:
                f.write("\n".join(lines) + "\n")
        else:
            p = d.rstrip("/") + ".offsets"
            with open(p, "w") as f:
                f.write("\n".join(lines) + "\n")
            args = ["-c", p]
            if len(case["streams"]) % 2 == 0:
                # the trace directory also holds a table of its own (ovnisync's default output), with other,
                # stale offsets: the table named with -c is the one to use
                stale = [lines[0]]
                for l in lines[1:]:
                    f_ = l.split()
                    if len(f_) == 5:
                        f_[2] = f_[3] = str(int(f_[2]) + 54321)
                        stale.append(" ".join(f_))
                with open(os.path.join(d, "clock-offsets.txt"), "w") as f:
                    f.write("\n".join(stale) + "\n")
    return args


def relpath_of(case, s, remap=None):
    lm = case["looms"][s["loom"]]
    p = "loom.%s/proc.%d/thread.%d" % (lm["name"], s["pid"], s["tid"])
    return (remap or {}).get(p, p)


def check_emu_log(case, tdir):
    """Oracle over thread.prv: returns None or (key, message)."""
    try:
        out = pv.Out(tdir, ("thread",))
    except pv.PrvError as ex:
        return "prv-malformed", str(ex)
    prv = out.prv["thread"]
    rows = out.row["thread"].threads
    # corrected clocks
    corr = {}
    stream_of = {}
    allc = []
    for s in case["streams"]:
        off = case["looms"][s["loom"]]["off"]
        for (c, m, p, uid) in s["events"]:
            allc.append(c + off)
            if uid:
                corr[uid] = c + off
                stream_of[uid] = s["tid"]
    first = min(allc)
    # row of each tid through the .row labels ("TH app.tid")
    tid_of_row = {}
    for r, name in enumerate(rows, 1):
        try:
            tid_of_row[r] = int(name.split(".")[-1])
        except ValueError:
            return "row-label", "unexpected thread row label %r" % name
    # value 0 = the mark row going empty when the thread stops being active
    log = [(r, t, v) for (r, t, ty, v) in prv.lines if ty == 100 and v != 0]
    seen = {}
    lastcorr = None
    per_stream = {}
    for (r, t, v) in log:
        if v not in corr:
            return "foreign-event", "replayed mark id %d that no stream contains" % v
        if v in seen:
            return "duplicate-event", "mark id %d replayed twice" % v
        seen[v] = 1
        if tid_of_row.get(r) != stream_of[v]:
            return "wrong-row", "mark id %d of thread %d shown in row %d (%s)" % (v, stream_of[v], r, rows[r - 1])
        if t != corr[v] - first:
            return "paraver-time", ("mark id %d written at time %d, expected corrected %d - first %d = %d"
                                    % (v, t, corr[v], first, corr[v] - first))
        if lastcorr is not None and corr[v] < lastcorr:
            return "time-order", "mark id %d (corrected %d) replayed after an event at %d" % (v, corr[v], lastcorr)
        lastcorr = corr[v]
        per_stream.setdefault(stream_of[v], []).append(v)
    if len(seen) != len(corr):
        missing = sorted(set(corr) - set(seen))[:5]
        return "lost-event", "%d of %d marks never replayed, e.g. ids %s" % (len(corr) - len(seen), len(corr), missing)
    for s in case["streams"]:
        exp = [uid for (_, _, _, uid) in s["events"] if uid]
        if per_stream.get(s["tid"], []) != exp:
            return "stream-order", "marks of thread %d replayed as %s, stream order is %s" % (
                s["tid"], per_stream.get(s["tid"], [])[:10], exp[:10])
    # OHx / OHe processing times from the state rows
    for s in case["streams"]:
        off = case["looms"][s["loom"]]["off"]
        row = [r for r, t in tid_of_row.items() if t == s["tid"]][0]
        st = [(t, v) for (r, t, ty, v) in prv.lines if ty == 4 and r == row]
        exp = [(s["events"][0][0] + off - first, 1), (s["events"][-1][0] + off - first, 3)]
        if st != exp:
            return "state-times", "thread %d state lines %s, expected %s" % (s["tid"], st, exp)
    if prv.duration != max(allc) - first:
        return "duration", "header duration %d, last corrected time %d" % (prv.duration, max(allc) - first)
    return None


def _unmap(text, remap):
    """Dump text with the stream paths of a re-arranged layout turned back into the usual ones."""
    if not remap:
        return text
    inv = {v: k for k, v in remap.items()}
    out = []
    for l in text.split("\n"):
        f = l.split(" ")
        out.append(" ".join(inv.get(x, x) for x in f))
    return "\n".join(out)


def check_dump(case, text, with_empty, remap=None):
    lines = [l for l in text.split("\n") if l.strip()]
    exp = {}
    total = 0
    for s in case["streams"]:
        exp[relpath_of(case, s, remap)] = [(c, m, p) for (c, m, p, _) in s["events"]]
        total += len(s["events"])
    if len(lines) != total:
        return "dump-count", "ovnidump printed %d events, the streams hold %d" % (len(lines), total)
    pos = {k: 0 for k in exp}
    last = None
    for l in lines:
        f = l.split()
        if len(f) < 3:
            return "dump-format", "unparsable dump line %r" % l
        try:
            clock = int(f[0])
        except ValueError:
            return "dump-format", "unparsable dump line %r" % l
        mcv, rel = f[1], f[2]
        hexs = "".join(f[3:]).replace(":", "")
        if rel not in exp:
            return "dump-foreign-stream", "dump line for unknown stream %s" % rel
        k = pos[rel]
        if k >= len(exp[rel]):
            return "dump-duplicate", "more events dumped for %s than it holds" % rel
        e = exp[rel][k]
        if (clock, mcv, hexs) != (e[0], e[1], e[2]):
            return "dump-stream-order", "stream %s event %d dumped as %s, expected %s" % (rel, k, (clock, mcv, hexs), e)
        pos[rel] = k + 1
        if last is not None and clock < last:
            return "dump-time-order", "dump clock %d after %d" % (clock, last)
        last = clock
    return None


def check_top(case, text):
    cnt = {}
    for s in case["streams"]:
        for (_, m, _, _) in s["events"]:
            cnt[m] = cnt.get(m, 0) + 1
    got = {}
    for l in text.split("\n"):
        f = l.split()
        if len(f) == 2 and len(f[0]) == 3 and f[1].isdigit():
            got[f[0]] = int(f[1])
    if got != cnt:
        return "top-counts", "ovnitop counts %s, streams hold %s" % (got, cnt)
    return None


_CTX = {}


def run_case(i):
    chk, b = _CTX["chk"], _CTX["plain"]
    case = gen_case(chk, i)
    out = {"i": i, "viol": None, "inconclusive": None, "nev": sum(len(s["events"]) for s in case["streams"]),
           "nstreams": len(case["streams"]), "ties": 0, "looms": len(case["looms"]), "variants": 0}
    # count cross-stream ties in corrected time (evidence)
    seen = {}
    for s in case["streams"]:
        off = case["looms"][s["loom"]]["off"]
        for c in set(e[0] + off for e in s["events"]):
            seen[c] = seen.get(c, 0) + 1
    out["ties"] = sum(1 for v in seen.values() if v > 1)
    dA = os.path.join(chk.scratch, "c%d-A" % i)
    dB = tempfile.mkdtemp(prefix="ovni-verif-c03-", dir=_CTX["disk"])
    try:
        n = len(case["streams"])
        argsA = write_case(case, dA)
        argsB = write_case(case, dB, order=list(reversed(range(n))))
        # a wide trace is replayed with fewer file descriptors than it has streams
        nofile = 32 if len(case["streams"]) >= 40 else None
        out["nofile"] = 1 if nofile else 0
        rA = emu.emu(b, dA, argsA, nofile=nofile)
        if rA.timeout:
            out["inconclusive"] = "emulator timeout"; return out
        if not emu.accepted(rA):
            out["viol"] = ("emulator-rejects", "ovniemu rejected a set of sorted streams: " + emu.last_error(rA),
                           rA.brief()); return out
        v = check_emu_log(case, dA)
        if v:
            out["viol"] = ("emu:" + v[0], v[1], {}); return out
        # the second variant is now and then reached through symbolic links: the trace directory
        # itself is a link, or one loom directory lives elsewhere (per-node scratch space) and is linked in
        pB = dB
        if i % 6 == 1:
            pB = dB + "-link"
            os.symlink(dB, pB)
        elif i % 6 == 4:
            lds = sorted(x for x in os.listdir(dB) if x.startswith("loom."))
            if lds:
                os.makedirs(dB + "-parts")
                shutil.move(os.path.join(dB, lds[0]), os.path.join(dB + "-parts", lds[0]))
                os.symlink(os.path.join(dB + "-parts", lds[0]), os.path.join(dB, lds[0]))
        out["symlinked"] = 1 if i % 6 in (1, 4) else 0
        # "there are no imposed rules on how to organize the several streams into directories": in one
        # case in six the first thread stream of every process lies in the process directory itself,
        # the other thread directories inside it (a stream directory holding further streams)
        remap = {}
        if i % 6 == 3:
            for ld in sorted(x for x in os.listdir(dB) if x.startswith("loom.")):
                for pd in sorted(os.listdir(os.path.join(dB, ld))):
                    pdir = os.path.join(dB, ld, pd)
                    tds = sorted(x for x in os.listdir(pdir) if x.startswith("thread."))
                    if not tds or tds[0] == "thread.999999":
                        continue
                    for f in ("stream.json", "stream.obs"):
                        shutil.move(os.path.join(pdir, tds[0], f), os.path.join(pdir, f))
                    os.rmdir(os.path.join(pdir, tds[0]))
                    remap["%s/%s/%s" % (ld, pd, tds[0])] = "%s/%s" % (ld, pd)
        out["nested_layout"] = 1 if remap else 0
        rB = emu.emu(b, pB, argsB, nofile=nofile)
        if not emu.accepted(rB):
            out["viol"] = ("emulator-rejects:other-enumeration-order", emu.last_error(rB), rB.brief()); return out
        fa, fb = pv.read_bytes(dA), pv.read_bytes(dB)
        for k in fa:
            if fa[k] != fb.get(k):
                out["viol"] = ("enumeration-order-dependence:" + k,
                               "%s differs between two directory creation orders / file systems" % k, {}); return out
        out["variants"] = 2
        # dump tools (the variant on disk additionally holds an empty stream)
        for d, we in ((dA, False), (dB, case["empty_stream"])):
            if we:
                lm = case["looms"][0]
                obs.write_stream(d, lm["name"], 10, 999999,
                                 obs.thread_meta(999999, 10, lm["name"], cpus=[(0, 0)]), [])
            dd = pB if d is dB else d
            rd = emu.run_tool(b, "ovnidump", ["-x", dd], nofile=nofile)
            if rd.rc != 0 or rd.sig:
                out["viol"] = ("dump-fails", "ovnidump rc=%s sig=%s: %s" % (rd.rc, rd.sig, rd.err[-300:]), rd.brief())
                return out
            v = check_dump(case, rd.out, we, remap if d is dB else None)
            if v:
                out["viol"] = (v[0], v[1], {}); return out
            if d is dA:
                dumpA = rd.out
            elif not we and _unmap(rd.out, remap) != dumpA:
                out["viol"] = ("dump-enumeration-order-dependence", "ovnidump output differs between directory orders", {})
                return out
            rt_ = emu.run_tool(b, "ovnitop", [dd], nofile=nofile)
            if rt_.rc != 0 or rt_.sig:
                out["viol"] = ("top-fails", "ovnitop rc=%s sig=%s" % (rt_.rc, rt_.sig), rt_.brief()); return out
            v = check_top(case, rt_.out)
            if v:
                out["viol"] = (v[0], v[1], {}); return out
        return out
    finally:
        shutil.rmtree(dA, ignore_errors=True)
        shutil.rmtree(dB, ignore_errors=True)
        shutil.rmtree(dB + "-parts", ignore_errors=True)
        if os.path.islink(dB + "-link"):
            os.unlink(dB + "-link")
        for p in (dA + ".offsets", dB + ".offsets"):
            if os.path.exists(p):
                os.unlink(p)


def heap_sequences(chk, quick):
    """Operation sequences for the heap harness: exhaustive over small
    sizes/keys plus random."""
    seqs = []
    maxn = 5 if quick else 7
    for n in range(1, maxn + 1):
        for keys in itertools.product(range(3), repeat=n):
            # insert all then pop all; and interleaved: pop after every 2 inserts
            seqs.append([("I", k) for k in keys] + [("P", 0)] * (n + 1))
            if n >= 3:
                s = []
                for j, k in enumerate(keys):
                    s.append(("I", k))
                    if j % 2 == 1:
                        s.append(("P", 0))
                s += [("P", 0)] * n
                seqs.append(s)
    rng = chk.rng(0, "heap")
    for _ in range(1500 if quick else 20000):
        n = rng.randint(1, 200)
        s = []
        size = 0
        for _ in range(n):
            if size == 0 or rng.random() < 0.6:
                s.append(("I", rng.randint(0, rng.choice([2, 10, 10 ** 9])))); size += 1
            else:
                s.append(("P", 0)); size -= 1
        s += [("P", 0)] * (size + 1)
        seqs.append(s)
    return seqs


def model_heap(seq):
    import heapq
    h = []
    out = []
    for op, k in seq:
        if op == "I":
            heapq.heappush(h, k)
        else:
            out.append(heapq.heappop(h) if h else -1)
    return out


def run_heap(chk, asan, quick):
    exe = os.path.join(chk.scratch, "heap_harness")
    chk.cc(exe, [os.path.join(core.VERIF, "drivers", "heap_harness.c")], asan,
           extra=[os.path.join(asan.dir, "src", "libcommon-static.a")])
    seqs = heap_sequences(chk, quick)
    chunks = [seqs[i::core.NCPU] for i in range(core.NCPU)]

    def feed(chunk):
        text = "".join("".join("%s %d\n" % (op, k) if op == "I" else "P\n" for op, k in s) + "E\n" for s in chunk)
        r = core.run_retry([exe], stdin=text.encode(), timeout=40)
        return chunk, r
    nops = 0
    for chunk, r in map(feed, chunks):
        if r.timeout:
            chk.note_inconclusive("heap harness timeout"); continue
        if r.sanitizer or r.sig or r.rc != 0:
            chk.report("heap:%s:%s" % (core.sanitizer_kind(r.err) if r.sanitizer else "crash", core.first_repo_frame(r.err)),
                       "heap.h harness crashed or tripped a sanitizer", r.brief())
            continue
        lines = r.out.strip().split("\n")
        if len(lines) != len(chunk):
            chk.report("heap:harness-output", "harness printed %d results for %d sequences" % (len(lines), len(chunk)), {})
            continue
        for s, l in zip(chunk, lines):
            nops += len(s)
            if l.startswith("BAD"):
                chk.report("heap:invariant:" + l[4:].split(" at ")[0].replace(" ", "-")[:40], l, {"sequence": s[:80]})
                continue
            got = [int(x) for x in l.split()[2:]]
            if got != model_heap(s):
                chk.report("heap:pop-order", "pops %s differ from a sorted merge %s" % (got[:20], model_heap(s)[:20]),
                           {"sequence": s[:80]})
    return len(seqs), nops


def main(argv):
    chk = core.Check("C03", "exploration", argv)
    plain = chk.build("plain", ["ovniemu", "ovnidump", "ovnitop"])
    asan = chk.build("asan", ["common-static"])
    disk = "/var/tmp" if os.access("/var/tmp", os.W_OK) else tempfile.gettempdir()
    _CTX.update(chk=chk, plain=plain, disk=disk)
    quick = chk.tier == "quick"
    if chk.replay:
        rp = json.load(open(chk.replay))["replay"]
        cases = [rp["case"]]
    else:
        cases = list(range(150 if quick else 4000))
    evaluated = nev = ties = lowfd = 0
    shapes = set()
    for out in core.pmap(run_case, cases, chunksize=2):
        if out["inconclusive"]:
            chk.note_inconclusive(out["inconclusive"]); continue
        evaluated += 1
        nev += out["nev"]; ties += out["ties"]; lowfd += out.get("nofile", 0)
        if out["nstreams"] >= 2 and out["ties"] >= 1:
            shapes.add((out["nstreams"], out["looms"], min(out["ties"], 20)))
        if out["viol"]:
            case = gen_case(chk, out["i"])
            chk.report(out["viol"][0], out["viol"][1], {"case": out["i"], "looms": case["looms"],
                                                         "streams": [dict(s, events=s["events"][:6]) for s in case["streams"][:4]],
                                                         "observation": out["viol"][2]})
    nseq, nops = (0, 0)
    if not chk.replay:
        nseq, nops = run_heap(chk, asan, quick)
    c0 = gen_case(chk, cases[0])
    sample = {"case": cases[0], "looms": c0["looms"],
              "streams": [{"loom": s["loom"], "tid": s["tid"], "first_events": s["events"][:5]} for s in c0["streams"][:3]]}
    cov = {"evaluations": evaluated + nseq, "distinct_nontrivial": len(shapes) + nseq,
           "rule": "stream sets (1-12 streams, 1-3 looms with clock offsets, many equal corrected clocks inside and "
                   "across streams, directories created in two orders on tmpfs and ext4, the second one reached through a symbolic link or holding a linked-in loom directory in a third of the cases, one case in six with thread streams nested inside the stream directory of the process's first thread) replayed by ovniemu, ovnidump "
                   "-x and ovnitop; heap.h sequences (exhaustive insert/pop orders for small sizes over 3 key values + "
                   "random) under ASan+UBSan with structural invariant walks. distinct_nontrivial = distinct merge "
                   "shapes (streams>=2, looms, number of cross-stream ties>=1) + heap sequences run",
           "samples": [sample], "stream_sets": evaluated, "events_replayed": nev, "cross_stream_tie_groups": ties,
           "wide_sets_replayed_with_32_descriptors": lowfd,
           "merge_shapes": len(shapes), "heap_sequences": nseq, "heap_operations": nops}
    return chk.finish(cov, assumptions=[
        "thread.prv type-100 lines appear in processing order (one per OM= event with a unique non-zero value)",
        "ovnidump applies no clock offsets, so for it the order is checked on raw clocks",
        "ties may be replayed in any order; only the stated merge properties are required"])
