"""C04 - thread life cycle iff.  Legal-prefix closure over the OH* alphabet
plus random long histories, real ovniemu vs the six-transition machine;
thread.prv types 4/2/6 compared after every event."""

import json
import os
import shutil

import core
import emu
import obs
import refemu
import viewcmp

ALPHA = "xXprcwe"     # X = execute naming another CPU of the loom than the thread's usual one
# shortest completion to Dead from each state
COMPLETE = {refemu.UNKNOWN: "xe", refemu.RUNNING: "e", refemu.COOLING: "e",
            refemu.PAUSED: "re", refemu.WARMING: "re", refemu.DEAD: ""}


def make_desc(cfg):
    """cfg: list of cpu index per thread (-1 = virtual); one loom, one proc.
    Threads with the same index share that CPU."""
    ncpu = max([c for c in cfg if c >= 0] + [1]) + 1      # at least two CPUs so that X has somewhere to go
    return {"looms": [{"name": "L0", "cpus": [(i, i + 4) for i in range(ncpu)],
                       "procs": [{"pid": 7, "appid": 1, "threads": [100 + i for i in range(len(cfg))]}]}]}


def xcpu(cfg, ti, a):
    """CPU index named by an execute event of thread ti."""
    if a == "x":
        return cfg[ti]
    ncpu = max([c for c in cfg if c >= 0] + [1]) + 1
    return 0 if cfg[ti] < 0 else (cfg[ti] + 1) % ncpu


def to_history(desc, cfg, word):
    """word: list of (thread index, letter)."""
    keys = [("L0", 7, 100 + i) for i in range(len(cfg))]
    h = []
    for n, (ti, a) in enumerate(word):
        pl = obs.i32(xcpu(cfg, ti, a), 100 + ti, 0) if a in "xX" else b""
        h.append((1000 + 10 * n, keys[ti], "OH" + a.lower(), pl))
    return h


def model_run(desc, cfg, word):
    """Returns (index of first illegal event or None, system, views)."""
    sys_ = refemu.System(desc)
    tv = []
    for n, (ti, a) in enumerate(word):
        th = sys_.thread(("L0", 7, 100 + ti))
        try:
            sys_.ovni_event(th, "OH" + a.lower(), obs.i32(xcpu(cfg, ti, a), 100 + ti, 0) if a in "xX" else b"")
        except refemu.Reject as r:
            return n, sys_, tv, str(r)
        tv.append(sys_.thread_view())
    return None, sys_, tv, None


def completion(sys_, cfg):
    """Events bringing every thread to Dead from the model's state, one
    thread at a time (so no new oversubscription: a thread only runs while
    finishing if the CPU allows it; threads sharing a physical CPU with a
    running thread are completed after that one died)."""
    word = []
    order = sorted(range(len(cfg)), key=lambda i: 0 if sys_.thread(("L0", 7, 100 + i)).state == refemu.RUNNING else 1)
    for i in order:
        st = sys_.thread(("L0", 7, 100 + i)).state
        for a in COMPLETE[st]:
            word.append((i, a))
    return word


def enumerate_closure(cfg, depth):
    """All (prefix, next event) pairs with a legal prefix of length < depth."""
    desc = make_desc(cfg)
    cases = []
    frontier = [[]]
    syms = [(i, a) for i in range(len(cfg)) for a in ALPHA]
    for d in range(depth):
        nxt = []
        for p in frontier:
            bad, sys_, _, _ = model_run(desc, cfg, p)
            assert bad is None
            for s in syms:
                th = sys_.thread(("L0", 7, 100 + s[0]))
                if th.state == refemu.DEAD and s[1] in "xX":
                    continue    # left open by the property
                w = p + [s]
                b2, _, _, _ = model_run(desc, cfg, w)
                cases.append((cfg, p, s, b2 is None))
                if b2 is None:
                    nxt.append(w)
        frontier = nxt
    return cases


_CTX = {}


def run_word(build, wd, cfg, word):
    desc = make_desc(cfg)
    hist = to_history(desc, cfg, word)
    # the ovni model alone, every model enabled (-a), or some models required by the
    # trace: the thread life cycle must not depend on which other models are there
    sel = (len(word) + sum(t for t, _ in word)) % 3
    if sel == 1:
        res, out = viewcmp.run_history(build, wd, desc, hist, args=["-a"])
    elif sel == 2:
        import histgen
        res, out = viewcmp.run_history(build, wd, desc, hist, require=histgen.require_of("VK6"))
    else:
        res, out = viewcmp.run_history(build, wd, desc, hist)
    return desc, hist, res, out


def judge(cfg, word, label):
    """Run one complete word; compare acceptance and timelines with the
    model.  Returns (violation or None, stats)."""
    chk, build = _CTX["chk"], _CTX["plain"]
    desc = make_desc(cfg)
    bad, sys_, tv, why = model_run(desc, cfg, word)
    expect_ok = bad is None and sys_.all_dead()
    wd = os.path.join(chk.scratch, "w-%d" % os.getpid())
    try:
        desc, hist, res, out = run_word(build, wd, cfg, word)
        if res.timeout:
            return ("inconclusive", "timeout"), None
        if res.sig or res.rc not in (0, 1):
            return ("crash:sig=%s:rc=%s" % (res.sig, res.rc), "emulator crashed", res.brief()), None
        acc = emu.accepted(res)
        wstr = " ".join("%d%s" % (t, a) for t, a in word)
        if acc != expect_ok:
            if expect_ok:
                key = "rejects-legal:" + label
                what = "emulator rejected a legal history (%s): %s" % (wstr, emu.last_error(res))
            else:
                reason = why if bad is not None else "not all threads dead at the end"
                key = "accepts-illegal:" + (("OH%s-in-%s" % (word[bad][1], reason.split()[-1])) if bad is not None else "not-dead-at-end")
                what = "emulator accepted an illegal history (%s): model says %s" % (wstr, reason)
            return (key, what, {"cfg": cfg, "word": word, "emu": res.brief()}), None
        nlines = 0
        if acc:
            times = viewcmp.event_times(hist)
            d = viewcmp.compare_file(out.prv["thread"], out.pcf["thread"], times, tv, {2, 4, 6}, {4, 6})
            nlines = len(out.prv["thread"].lines)
            if d:
                ev = word[d["event_index"]]
                return ("timeline-differs:type%d" % d["type"],
                        "thread.prv differs from the state machine after event %d (OH%s of thread %d) of %s: %s"
                        % (d["event_index"], ev[1], ev[0], wstr, d), {"cfg": cfg, "word": word, "diff": d}), None
        return None, {"accepted": acc, "lines": nlines}
    finally:
        shutil.rmtree(wd, ignore_errors=True)


def run_closure_case(case):
    cfg, prefix, sym, legal = case
    desc = make_desc(cfg)
    results = []
    if legal:
        w = prefix + [sym]
        _, sys_, _, _ = model_run(desc, cfg, w)
        full = w + completion(sys_, cfg)
        results.append(judge(cfg, full, "completed"))
        if not sys_.all_dead():
            results.append(judge(cfg, w, "bare"))
    else:
        # The emulator must reject whatever follows the illegal event.  A
        # faulty emulator that wrongly takes the transition ends in a state
        # we do not know, so try every candidate completion of that thread
        # (one per state of the machine); all must be rejected.
        _, sys_, _, _ = model_run(desc, cfg, prefix)
        others = [(i, a) for (i, a) in completion(sys_, cfg) if i != sym[0]]
        for comp in ("", "e", "re", "xe"):
            full = prefix + [sym] + [(sym[0], a) for a in comp] + others
            results.append(judge(cfg, full, "illegal-next"))
    return case, results


def gen_random(chk, i):
    rng = chk.rng(i, "rand")
    nth = rng.randint(1, 3)
    cfg = [rng.choice([-1, 0, 1, 2]) for _ in range(nth)]
    if rng.random() < 0.6:
        cfg = list(range(nth))
    desc = make_desc(cfg)
    L = rng.randint(5, 40)
    word = []
    inject_bad = rng.random() < 0.3
    for n in range(L):
        sys_ = model_run(desc, cfg, word)[1]
        ti = rng.randrange(nth)
        th = sys_.thread(("L0", 7, 100 + ti))
        legal = []
        for a in ALPHA:
            if th.state == refemu.DEAD and a in "xX":
                continue
            if model_run(desc, cfg, word + [(ti, a)])[0] is None:
                legal.append(a)
        if inject_bad and n == L - 1:
            illegal = [a for a in ALPHA if a not in legal and not (th.state == refemu.DEAD and a in "xX")]
            if illegal:
                word.append((ti, rng.choice(illegal)))
                break
        if not legal:
            continue
        word.append((ti, rng.choice(legal)))
    bad, sys_, _, _ = model_run(desc, cfg, word)
    if bad is None:
        if rng.random() < 0.85:
            word = word + completion(sys_, cfg)
    else:
        sys2 = model_run(desc, cfg, word[:bad])[1]
        word = word + completion(sys2, cfg)
    return cfg, word


def gen_crowd(chk, i):
    """Three or four threads taking turns on one physical CPU (pausing, cooling,
    warming in between); the history ends with an event that would make two of
    them run at once.  Returns (cfg, legal prefix, offending symbol) or None."""
    rng = chk.rng(i, "crowd")
    nth = rng.randint(3, 4)
    cfg = [0] * nth
    desc = make_desc(cfg)
    word = []
    for n in range(rng.randint(3, 18)):
        ti = rng.randrange(nth)
        sys_ = model_run(desc, cfg, word)[1]
        th = sys_.thread(("L0", 7, 100 + ti))
        legal = [a for a in "xprcwe" if not (th.state == refemu.DEAD and a == "x")
                 and model_run(desc, cfg, word + [(ti, a)])[0] is None]
        if legal:
            word.append((ti, rng.choice(legal)))
    cands = []
    for ti in range(nth):
        for a in "xr":
            bad, _, _, why = model_run(desc, cfg, word + [(ti, a)])
            if bad is not None and why and "oversubscri" in why.lower():
                cands.append((ti, a))
    if not cands:
        return None
    return cfg, word, rng.choice(cands)


def run_crowd_case(i):
    chk = _CTX["chk"]
    g = gen_crowd(chk, i)
    if g is None:
        return None, []
    cfg, prefix, sym = g
    return run_closure_case((cfg, prefix, sym, False))


def run_many_case(n):
    """n threads of one process all execute on the virtual CPU and then end one after the other (in
    order, in reverse, or odd ones first): a legal history for any n."""
    chk = _CTX["chk"]
    cfg = [-1] * n
    order = [list(range(n)), list(reversed(range(n))), list(range(1, n, 2)) + list(range(0, n, 2))][n % 3]
    word = [(ti, "x") for ti in range(n)] + [(ti, "e") for ti in order]
    return (cfg, word), [judge(cfg, word, "many-threads")]


def run_random_case(i):
    chk = _CTX["chk"]
    cfg, word = gen_random(chk, i)
    return (cfg, word), [judge(cfg, word, "random")]


def main(argv):
    chk = core.Check("C04", "exploration", argv)
    plain = chk.build("plain", ["ovniemu"])
    _CTX.update(chk=chk, plain=plain)
    if chk.replay:
        rp = json.load(open(chk.replay))["replay"]
        v, st = judge(rp["cfg"], [tuple(x) for x in rp["word"]], "replay")
        if v and v[0] != "inconclusive":
            chk.report(v[0], v[1], v[2])
        return chk.finish({"evaluations": 1, "distinct_nontrivial": 2, "rule": "replay", "samples": [rp]})
    quick = chk.tier == "quick"
    closure = []
    closure += enumerate_closure([0], 8 if quick else 10)          # one thread, own CPU
    closure += enumerate_closure([-1], 5 if quick else 8)         # one thread on the virtual CPU
    closure += enumerate_closure([0, 1], 4 if quick else 5)       # two threads, two CPUs
    closure += enumerate_closure([0, 0], 4 if quick else 5)       # two threads sharing one physical CPU (x p | x | r needs 4)
    closure += enumerate_closure([-1, -1], 3 if quick else 4)     # two threads sharing the virtual CPU
    nrandom = 150 if quick else 4000
    runs = accepted = rejected = lines = 0
    words = set()
    legal_next = illegal_next = 0
    samples = []

    def absorb(results, tag):
        nonlocal runs, accepted, rejected, lines
        for v, st in results:
            if v is not None:
                if v[0] == "inconclusive":
                    chk.note_inconclusive(v[1]); continue
                chk.report(v[0], v[1], v[2])
                runs += 1
                continue
            runs += 1
            lines += st["lines"]
            if st["accepted"]:
                accepted += 1
            else:
                rejected += 1

    for case, results in core.pmap(run_closure_case, closure, chunksize=4):
        cfg, prefix, sym, legal = case
        words.add((tuple(cfg), tuple(prefix), sym))
        if legal:
            legal_next += 1
        else:
            illegal_next += 1
        absorb(results, "closure")
        if len(samples) < 2 and len(prefix) >= 2:
            samples.append({"cfg": cfg, "legal_prefix": ["%d:OH%s" % p for p in prefix], "next": "%d:OH%s" % sym,
                            "model_says_legal": legal})
    ncrowd = 0
    for case, results in core.pmap(run_crowd_case, range(500 if quick else 8000), chunksize=4):
        if case is None:
            continue
        ncrowd += 1
        words.add((tuple(case[0]), tuple(case[1]), case[2]))
        absorb(results, "crowd")
    # more threads than fit a machine word (or two) attached to one CPU at the same time
    for (cfg, word), results in core.pmap(run_many_case, [63, 64, 65, 66, 129, 130] if quick else [63, 64, 65, 66, 127, 128, 129, 130, 257, 300]):
        ncrowd += 1
        absorb(results, "many-threads")
    # histories in which threads are also moved between CPUs (OAs by the thread itself,
    # OAr by another one): the life-cycle and the no-oversubscription clauses must
    # hold with migrations too (generator, reference model and judge of C05)
    import c05
    c05._CTX.update(chk=chk, plain=plain)
    naff = 0
    for (shape, word), results in core.pmap(c05.run_random_case, range(150 if quick else 4000), chunksize=4):
        for v, st in results:
            if v is None:
                runs += 1; naff += 1
                continue
            if v[0] == "inconclusive":
                chk.note_inconclusive(v[1]); continue
            runs += 1; naff += 1
            if v[0].startswith(("accepts-illegal", "rejects-legal", "crash")) or v[0].startswith("timeline-differs:thread.prv"):
                chk.report("with-affinity-events:" + v[0], v[1], v[2])
    for (cfg, word), results in core.pmap(run_random_case, range(nrandom), chunksize=4):
        words.add((tuple(cfg), tuple(word)))
        absorb(results, "random")
        if len(samples) < 4:
            samples.append({"cfg": cfg, "random_word": ["%d:OH%s" % p for p in word]})
    cov = {"evaluations": runs, "distinct_nontrivial": len(words),
           "rule": "legal-prefix closure: every legal prefix (per the six-transition machine) of bounded length over "
                   "{OHx(own CPU),OHx(another CPU),OHp,OHr,OHc,OHw,OHe} x threads, extended by every possible next event, run through ovniemu "
                   "completed to Dead (and bare when not all dead); plus random histories up to length 40 on 1-3 "
                   "threads and histories of 3-4 threads taking turns on one physical CPU that end with an "
                   "oversubscribing execute/resume, and random histories with affinity events (local and remote) on 1-2 looms. distinct_nontrivial = distinct (cpu configuration, history) words executed",
           "samples": samples, "closure_pairs": len(closure), "closure_legal_next": legal_next,
           "closure_illegal_next": illegal_next, "random_histories": nrandom,
           "crowded_cpu_oversubscription_cases": ncrowd, "histories_with_affinity_events": naff,
           "emulator_accepted": accepted, "emulator_rejected": rejected, "prv_lines_compared": lines,
           "exhaustive": True,
           "exhaustive_scope": "all histories of length <= %s on one thread (own CPU), <= %s on the virtual CPU, "
                               "<= %s on two threads; OHx after OHe excluded (left open by the property)"
                               % ((8, 5, 4) if quick else (10, 8, 5))}
    return chk.finish(cov, assumptions=[
        "lib/refemu.py thread machine = the six transitions in the property statement",
        "rejection is observed as exit status != 0 / no 'emulation finished ok' line; the emulator stops at the first "
        "illegal event, so a history is rejected iff some prefix ends in an illegal event"])
