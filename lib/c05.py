"""C05 - CPU occupancy and CPU rows.  Histories over thread state and
affinity events (local and remote) on several threads, CPUs and looms;
ovniemu acceptance vs the reference CPU model (physical CPUs never hold
two running threads, the virtual CPU may), cpu.prv types 1/2/3 and
thread.prv types 4/2/6 compared after every event."""

import json
import os
import shutil

import core
import emu
import histgen
import obs
import refemu
import viewcmp

STATE_EVS = "prcwe"
COMPLETE = {refemu.UNKNOWN: "", refemu.RUNNING: "e", refemu.COOLING: "e",
            refemu.PAUSED: "re", refemu.WARMING: "re", refemu.DEAD: ""}


def make_desc(shape):
    """shape: list of looms, each (ncpus, [threads per proc...]) or (ncpus,
    [...], "same-tids"): thread ids count on from the previous loom, or start
    again at 100 (thread ids are only unique inside a node); phyids are scrambled w.r.t. indices so that row
    order (by phyid) differs from index order."""
    looms = []
    tid = 100
    pid = 10
    for li, sh in enumerate(shape):
        ncpus, procs = sh[0], sh[1]
        if len(sh) > 2:
            tid = 100
        ps = []
        for nt in procs:
            if len(sh) > 2 and sh[2] == "same-tids-in-loom":
                tid = 100          # thread ids are only unique inside a process (containers)
            ps.append({"pid": pid, "appid": pid - 9, "threads": list(range(tid, tid + nt))})
            tid += nt; pid += 1
        cpus = [(i, (ncpus - 1 - i) * 2 + li) for i in range(ncpus)]
        looms.append({"name": "L%d" % li, "cpus": cpus, "procs": ps})
    return {"looms": looms}


def keys_of(desc):
    ks = []
    for l in desc["looms"]:
        for p in l["procs"]:
            for t in p["threads"]:
                ks.append((l["name"], p["pid"], t))
    return ks


def sym_to_event(keys, sym):
    """sym = (thread index, op, *args) -> (key, mcv, payload)"""
    ti, op = sym[0], sym[1]
    k = keys[ti]
    if op == "x":
        return k, "OHx", obs.i32(sym[2], k[2], 0)
    if op in STATE_EVS:
        return k, "OH" + op, b""
    if op == "s":
        return k, "OAs", obs.i32(sym[2])
    if op == "R":
        return k, "OAr", obs.i32(sym[2], keys[sym[3]][2])
    if op in ("O", "I"):
        # kernel context switch out / in: the thread stays Running on its CPU for the base model
        return k, "KC" + op, b""
    raise ValueError(sym)


def to_history(keys, word):
    h = []
    for n, sym in enumerate(word):
        k, mcv, pl = sym_to_event(keys, sym)
        h.append((5000 + 7 * n, k, mcv, pl))
    return h


def model_run(desc, keys, word):
    sys_ = refemu.System(desc)
    tv, cv = [], []
    for n, sym in enumerate(word):
        k, mcv, pl = sym_to_event(keys, sym)
        try:
            if mcv[0] != "K":
                sys_.ovni_event(sys_.thread(k), mcv, pl)
        except refemu.Reject as r:
            return n, sys_, tv, cv, str(r)
        tv.append(sys_.thread_view())
        cv.append(sys_.cpu_view())
    return None, sys_, tv, cv, None


def completion(sys_, keys, skip=None):
    """Bring every started thread to Dead without creating a new
    oversubscription: running threads end first, then the others one at a
    time (resume, end)."""
    word = []
    order = sorted(range(len(keys)), key=lambda i: 0 if sys_.thread(keys[i]).state == refemu.RUNNING else 1)
    for i in order:
        if i == skip:
            continue
        for a in COMPLETE[sys_.thread(keys[i]).state]:
            word.append((i, a))
    return word


def alphabet(desc, keys, cpus_idx):
    syms = []
    for ti, k in enumerate(keys):
        for c in cpus_idx:
            syms.append((ti, "x", c))
            syms.append((ti, "s", c))
        for a in STATE_EVS:
            syms.append((ti, a))
        for tj, k2 in enumerate(keys):
            if tj != ti and k2[0] == k[0]:
                for c in cpus_idx:
                    syms.append((ti, "R", c, tj))
    return syms


def skip_sym(sys_, keys, sym):
    # OHx of a dead thread is left open by C04
    if sym[1] == "x" and sys_.thread(keys[sym[0]]).state == refemu.DEAD:
        return True
    # A remote affinity event naming the CPU the target is already bound to
    # is not an affinity *change*; the property does not say what happens
    # (the emulator refuses it with an internal channel error while it
    # ignores the same situation for OAs).  Recorded in DESIGN.md, not judged.
    if sym[1] == "R":
        # the thread the event really names: ids are looked up in the emitter's own
        # process first, then in its loom (several processes may use the same ids)
        em = sys_.thread(keys[sym[0]])
        tid = keys[sym[3]][2]
        t = em.proc.threads.get(tid) or em.loom.find_thread(tid) or sys_.thread(keys[sym[3]])
        if t.cpu is not None and t.cpu is t.loom.get_cpu(sym[2]):
            return True
    return False


def enumerate_closure(shape, cpus_idx, depth, maxcases=None, rng=None):
    desc = make_desc(shape)
    keys = keys_of(desc)
    syms = alphabet(desc, keys, cpus_idx)
    cases = []
    frontier = [[]]
    for d in range(depth):
        nxt = []
        for p in frontier:
            sys_ = model_run(desc, keys, p)[1]
            for s in syms:
                if skip_sym(sys_, keys, s):
                    continue
                w = p + [s]
                legal = model_run(desc, keys, w)[0] is None
                cases.append((shape, p, s, legal))
                if legal:
                    nxt.append(w)
        frontier = nxt
        if maxcases and len(frontier) > maxcases and rng is not None:
            frontier = rng.sample(frontier, maxcases)
    return cases


_CTX = {}


def judge(shape, word, label):
    chk, build = _CTX["chk"], _CTX["plain"]
    desc = make_desc(shape)
    keys = keys_of(desc)
    bad, sys_, tv, cv, why = model_run(desc, keys, word)
    started_all_dead = all(t.state in (refemu.DEAD,) for t in sys_.thread_rows)
    expect_ok = bad is None and started_all_dead
    wd = os.path.join(chk.scratch, "w-%d" % os.getpid())
    wstr = " ".join(":".join(str(x) for x in s) for s in word)
    try:
        hist = to_history(keys, word)
        kern = any(sym[1] in ("O", "I") for sym in word)
        res, out = viewcmp.run_history(build, wd, desc, hist, require=histgen.require_of("K") if kern else None)
        if res.timeout:
            return ("inconclusive", "timeout"), None
        if res.sig or res.rc not in (0, 1):
            return ("crash:sig=%s:rc=%s" % (res.sig, res.rc), "emulator crashed on %s" % wstr, res.brief()), None
        acc = emu.accepted(res)
        if acc != expect_ok:
            if expect_ok:
                key = "rejects-legal:" + label
                what = "emulator rejected a legal history (%s): %s" % (wstr, emu.last_error(res))
            else:
                reason = why if bad is not None else "not all threads dead at the end"
                cls = "oversubscription" if "oversubscribed" in reason else reason.split(" in ")[0].replace(" ", "-")
                key = "accepts-illegal:" + cls
                what = "emulator accepted an illegal history (%s): model says %s" % (wstr, reason)
            return (key, what, {"shape": shape, "word": word, "emu": res.brief()}), None
        nl = 0
        if acc:
            times = viewcmp.event_times(hist)
            d = viewcmp.compare_file(out.prv["cpu"], out.pcf["cpu"], times, cv, {1, 2, 3}, set())
            src = "cpu.prv"
            if not d:
                d = viewcmp.compare_file(out.prv["thread"], out.pcf["thread"], times, tv, {2, 4, 6}, {4, 6})
                src = "thread.prv"
            nl = len(out.prv["cpu"].lines) + len(out.prv["thread"].lines)
            if d:
                return ("timeline-differs:%s:type%d" % (src, d["type"]),
                        "%s differs from the CPU model after event %d (%s) of %s: %s"
                        % (src, d["event_index"], word[d["event_index"]], wstr, d),
                        {"shape": shape, "word": word, "diff": d}), None
            # row labels of cpu.row must be the model's CPU names in order
            names = [c.name for c in sys_.cpu_rows]
            if out.row["cpu"].threads != names:
                return ("cpu-row-names", "cpu.row %r differs from expected %r" % (out.row["cpu"].threads, names),
                        {"shape": shape, "word": word}), None
        return None, {"accepted": acc, "lines": nl,
                      "oversub_virtual": any(c.virtual and c.nrunning() > 1 for c in sys_.cpu_rows)}
    finally:
        shutil.rmtree(wd, ignore_errors=True)


def run_closure_case(case):
    shape, prefix, sym, legal = case
    desc = make_desc(shape)
    keys = keys_of(desc)
    results = []
    if legal:
        w = prefix + [sym]
        sys_ = model_run(desc, keys, w)[1]
        results.append(judge(shape, w + completion(sys_, keys), "completed"))
    else:
        sys_ = model_run(desc, keys, prefix)[1]
        # the thread whose state a faulty emulator might have changed
        victim = sym[3] if sym[1] == "R" else sym[0]
        others = completion(sys_, keys, skip=victim)
        for comp in ("", "e", "re"):
            full = prefix + [sym] + [(victim, a) for a in comp] + others
            results.append(judge(shape, full, "illegal-next"))
    return case, results


def gen_random(chk, i):
    rng = chk.rng(i, "rand")
    shape = rng.choice([[(2, [2])], [(3, [2, 1])], [(2, [3])], [(2, [1, 1]), (2, [2])], [(3, [2]), (2, [1, 2])],
                        [(1, [3])], [(2, [2]), (2, [1, 1], "same-tids")], [(3, [1, 2]), (3, [1, 1, 1], "same-tids")],
                        [(2, [1, 1]), (2, [2], "same-tids")], [(3, [1, 1, 1], "same-tids-in-loom")],
                        [(3, [2, 2], "same-tids-in-loom")], [(2, [1]), (3, [1, 2], "same-tids-in-loom")]])
    desc = make_desc(shape)
    keys = keys_of(desc)
    ncpu = {l["name"]: len(l["cpus"]) for l in desc["looms"]}
    L = rng.randint(8, 60)
    word = []
    want_bad = rng.random() < 0.35
    sys_ = refemu.System(desc)
    # a third of the histories also carry kernel context switches: a Running thread is switched out
    # (KCO), emits nothing until it is switched in again (KCI), and meanwhile stays Running on its CPU
    # as far as occupancy and the CPU rows are concerned
    kernel = (i % 3 == 0)
    outs = set()
    for n in range(L):
        ti = rng.randrange(len(keys))
        k = keys[ti]
        th = sys_.thread(k)
        if ti in outs:
            if rng.random() < 0.4:
                outs.discard(ti); word.append((ti, "I"))
            continue
        if kernel and th.state == refemu.RUNNING and rng.random() < 0.2:
            outs.add(ti); word.append((ti, "O"))
            continue
        cands = []
        cpus = list(range(ncpu[k[0]])) + [-1, -1]
        if th.state == refemu.UNKNOWN:
            cands = [(ti, "x", rng.choice(cpus))] * 3
        elif th.state != refemu.DEAD:
            cands = [(ti, a) for a in STATE_EVS] + [(ti, "s", rng.choice(cpus))] * 2
        mates = [j for j, k2 in enumerate(keys) if j != ti and k2[0] == k[0]]
        if mates and th.state not in (refemu.UNKNOWN, refemu.DEAD):
            cands += [(ti, "R", rng.choice(cpus), rng.choice(mates))] * 2
        if not cands:
            continue
        rng.shuffle(cands)
        last = (n == L - 1)
        chosen = None
        for s in cands:
            if skip_sym(sys_, keys, s):
                continue
            legal = model_run(desc, keys, word + [s])[0] is None
            if (want_bad and last and not legal) or (legal and not (want_bad and last)):
                chosen = s
                break
        if chosen is None:
            continue
        word.append(chosen)
        r = model_run(desc, keys, word)
        if r[0] is not None:
            break
        sys_ = r[1]
    word = word + [(ti, "I") for ti in sorted(outs)]
    bad, sys_, _, _, _ = model_run(desc, keys, word)
    if bad is None:
        word = word + completion(sys_, keys)
    else:
        sys2 = model_run(desc, keys, word[:bad])[1]
        word = word + completion(sys2, keys)
    return shape, word


def run_random_case(i):
    shape, word = gen_random(_CTX["chk"], i)
    return (shape, word), [judge(shape, word, "random")]


def main(argv):
    chk = core.Check("C05", "exploration", argv)
    plain = chk.build("plain", ["ovniemu"])
    _CTX.update(chk=chk, plain=plain)
    if chk.replay:
        rp = json.load(open(chk.replay))["replay"]
        v, st = judge(rp["shape"], [tuple(x) for x in rp["word"]], "replay")
        if v and v[0] != "inconclusive":
            chk.report(v[0], v[1], v[2])
        return chk.finish({"evaluations": 1, "distinct_nontrivial": 2, "rule": "replay", "samples": [rp]})
    quick = chk.tier == "quick"
    rng = chk.rng(0, "closure")
    closure = []
    # two threads of one process, two physical CPUs + virtual CPU
    closure += enumerate_closure([(2, [2])], [0, 1, -1], 3 if quick else 4, maxcases=None if quick else 400, rng=rng)
    # two threads in two processes sharing one physical CPU + virtual
    # depth 4 is needed for "A executes, pauses; B executes on the same CPU; A resumes"
    closure += enumerate_closure([(1, [1, 1])], [0, -1], 4 if quick else 5, maxcases=None if quick else 600, rng=rng)
    # two nodes using the same thread ids; the second one has its threads in two processes
    closure += enumerate_closure([(1, [1]), (2, [1, 1], "same-tids")], [0, 1], 3, maxcases=400 if quick else 3000, rng=rng)
    # three processes of one node, each with a thread 100
    closure += enumerate_closure([(2, [1, 1, 1], "same-tids-in-loom")], [0, 1], 3, maxcases=400 if quick else 3000, rng=rng)
    nrandom = 200 if quick else 6000
    runs = acc = rej = lines = vover = 0
    words = set()
    samples = []
    legal_next = 0

    def absorb(results):
        nonlocal runs, acc, rej, lines, vover
        for v, st in results:
            if v is not None and v[0] == "inconclusive":
                chk.note_inconclusive(v[1]); continue
            runs += 1
            if v is not None:
                chk.report(v[0], v[1], v[2]); continue
            lines += st["lines"]
            acc += 1 if st["accepted"] else 0
            rej += 0 if st["accepted"] else 1
            vover += 1 if (st["accepted"] and st["oversub_virtual"]) else 0

    for case, results in core.pmap(run_closure_case, closure, chunksize=4):
        shape, prefix, sym, legal = case
        words.add((json.dumps(shape), tuple(prefix), sym))
        legal_next += 1 if legal else 0
        absorb(results)
        if len(samples) < 2 and len(prefix) >= 2 and sym[1] in "sR":
            samples.append({"shape": shape, "legal_prefix": prefix, "next": sym, "model_says_legal": legal})
    for (shape, word), results in core.pmap(run_random_case, range(nrandom), chunksize=4):
        words.add((json.dumps(shape), tuple(word)))
        absorb(results)
        if len(samples) < 4:
            samples.append({"shape": shape, "random_word": word})
    cov = {"evaluations": runs, "distinct_nontrivial": len(words),
           "rule": "legal-prefix closure over {OHx(cpu),OHp,OHr,OHc,OHw,OHe,OAs(cpu),OAr(cpu,tid)} x threads on small "
                   "systems (every legal prefix extended by every next event; illegal ones followed by every candidate "
                   "completion) plus random histories up to length 60 on 1-2 looms (thread ids unique or repeated across looms), 2-5 threads, 1-3 CPUs + virtual CPU; "
                   "distinct_nontrivial = distinct (system shape, history) executed",
           "samples": samples, "closure_pairs": len(closure), "closure_legal_next": legal_next,
           "random_histories": nrandom, "emulator_accepted": acc, "emulator_rejected": rej,
           "accepted_with_virtual_cpu_oversubscribed": vover, "prv_lines_compared": lines}
    return chk.finish(cov, assumptions=[
        "lib/refemu.py CPU model: per-loom physical CPUs by index plus a virtual CPU (index -1); oversubscription "
        "means two Running threads bound to one physical CPU after an event",
        "OAs needs a CPU and an active thread; OAr needs a target in the same loom that is neither unknown nor dead "
        "(doc/user/emulation/ovni.md)"])
