"""C06 - view consistency across models and tracking modes.  Random
legal-by-construction histories interleaving value changes of every model
channel with thread state and affinity changes; every row of thread.prv and
cpu.prv is compared with the reference views after every event (or after
every distinct timestamp in the equal-clock variants)."""

import json
import os
import random
import shutil

import core
import emu
import histgen
import pv
import refemu
import tracegen
import viewcmp

SHAPES = [
    # (looms: [(ncpus, [threads per proc])])
    [(1, [2])], [(2, [2])], [(2, [3])], [(2, [2, 1])], [(3, [2, 2])], [(1, [1])], [(2, [2]), (1, [2])],
    # several processes in each of several looms (remote affinity across processes)
    [(2, [1, 1]), (2, [1, 1])], [(2, [2, 1]), (3, [1, 2])], [(3, [1, 1, 1])],
]
MODEL_SETS = ["V", "6", "D", "M", "T", "P", "K", "V6DMTPK", "V6DMTPK", "VK", "6M", "DTP", "VM"]


def make_desc(rng, shape):
    looms = []
    # ids that straddle a change of decimal width now and then (97..104, 9..12)
    tid, pid = rng.choice([100, 100, 97, 9996]), rng.choice([10, 10, 8, 98])
    ranks = rng.random() < 0.4
    # ranks placed block-wise (consecutive in a loom), cyclically over the looms, in reverse or at random
    nproc = sum(len(procs) for (_, procs) in shape)
    rlist = list(range(nproc))
    if ranks:
        place = rng.choice(["block", "cyclic", "reverse", "random"])
        if place == "cyclic":
            slots = [(k, li) for li, (_, procs) in enumerate(shape) for k in range(len(procs))]
            order = sorted(range(nproc), key=lambda x: slots[x])
            rlist = [0] * nproc
            for r_, x in enumerate(order):
                rlist[x] = r_
        elif place == "reverse":
            rlist.reverse()
        elif place == "random":
            rng.shuffle(rlist)
    rk = 0
    # thread ids are only unique inside a node: now and then every loom numbers its threads from the same id
    tid0, same_tids = tid, rng.random() < 0.3
    for li, (ncpus, procs) in enumerate(shape):
        ps = []
        if same_tids:
            tid = tid0
        for nt in procs:
            p = {"pid": pid, "appid": 1 + (pid % 3), "threads": list(range(tid, tid + nt))}
            if ranks:
                p["rank"], p["nranks"] = rlist[rk], 64
                rk += 1
            ps.append(p)
            tid += nt; pid += 1
        looms.append({"name": "node%d" % li, "cpus": [(i, 2 * i + 1) for i in range(ncpus)], "procs": ps})
    if ranks and len(looms) > 1 and rng.random() < 0.3:
        # rank information on some looms only (legal: the looms are then ordered by name, the processes
        # of a ranked loom still by rank)
        for l in rng.sample(looms, rng.randint(1, len(looms) - 1)):
            for p in l["procs"]:
                p.pop("rank", None); p.pop("nranks", None)
    return {"looms": looms}


def labelled_types(sp, enabled):
    """Paraver types whose values are compared by .pcf label."""
    lab = {4, 6}
    for mc in enabled:
        for cn, c in sp["models"][mc]["channels"].items():
            if cn in ("subsystem", "idle", "thread", "function", "cs", "flush", "type"):
                lab.add(c["type"])
    return lab


def gen_case(chk, i):
    rng = chk.rng(i)
    shape = SHAPES[i % len(SHAPES)]
    enabled = MODEL_SETS[(i // len(SHAPES)) % len(MODEL_SETS)]
    desc = make_desc(rng, shape)
    marks = {}
    if rng.random() < 0.5:
        marks = {rng.randint(0, 99): "single", rng.randint(0, 99): "stack"}
    tie = (i % 5 == 4)
    # one history in four moves threads about a lot more than it does anything else
    g = histgen.Gen(rng, desc, enabled, marks, unique_clocks=not tie, weights=dict(aff=12, state=4) if i % 4 == 1 else None)
    g.run(rng.choice([60, 150, 300]))
    lint = rng.random() < 0.5
    hist = g.finish(close_regions=lint)
    return {"case": i, "desc": desc, "enabled": enabled, "marks": marks, "hist": hist, "tie": tie, "lint": lint,
            "gen_rejected": g.nrejected}


_CTX = {}


def judge_case(case, build, wd):
    """Returns (violation or None, stats)."""
    sp = refemu.spec()
    desc, enabled, marks, hist = case["desc"], case["enabled"], case["marks"], case["hist"]
    model, tv, cv = histgen.views_along(desc, enabled, marks, hist)
    shutil.rmtree(wd, ignore_errors=True)
    extra = histgen.mark_meta(marks)
    tracegen.write_trace(wd, desc, hist, require=histgen.require_of(enabled), extra_meta=extra,
                         require_on=["all", "first", "last"][len(hist) % 3],
                         rank_on="one" if (len(hist) // 3) % 2 else "all", cpu_rng=random.Random(len(hist)))
    args = ["-l"] if case.get("lint") else []
    res = emu.emu(build, wd, args, timeout=60)
    if res.timeout:
        return ("inconclusive", "timeout"), None
    if res.sig or res.rc not in (0, 1):
        return ("crash:sig=%s:rc=%s" % (res.sig, res.rc), "emulator crashed", res.brief()), None
    if not emu.accepted(res):
        return ("rejects-legal-history", "emulator rejected a history the reference model accepts: " + emu.last_error(res),
                res.brief()), None
    try:
        out = pv.Out(wd)
    except pv.PrvError as ex:
        return ("prv-malformed", str(ex), {}), None
    clocks = [h[0] for h in hist]
    first = clocks[0]
    # compare at the end of every distinct timestamp
    idx = [k for k in range(len(hist)) if k == len(hist) - 1 or clocks[k + 1] != clocks[k]]
    times = [clocks[k] - first for k in idx]
    lab = labelled_types(sp, set(enabled) | {"O"})
    for name, exp in (("thread", tv), ("cpu", cv)):
        types = None
        d = viewcmp.compare_file(out.prv[name], out.pcf[name], times, [exp[k] for k in idx], types, lab)
        if d:
            k = idx[d["event_index"]]
            ev = hist[k]
            return ("view-differs:%s:type%d" % (name, d["type"]),
                    "%s.prv row %d type %d shows %r, reference view says %r after event #%d %s of thread %s (t=%d)"
                    % (name, d["row"], d["type"], d["observed"], d["expected"], k, ev[2], ev[1][2], d["time"]),
                    {"diff": {k2: repr(v) for k2, v in d.items()}, "event": [ev[0], list(ev[1]), ev[2], ev[3].hex()],
                     "context": [[h[0], h[1][2], h[2], h[3].hex()] for h in hist[max(0, k - 8):k + 1]]}), None
    return None, {"events": len(hist), "lines": len(out.prv["thread"].lines) + len(out.prv["cpu"].lines),
                  "rows_types": len(set((r, t) for (r, _, t, _) in out.prv["thread"].lines))
                  + len(set((r, t) for (r, _, t, _) in out.prv["cpu"].lines))}


def run_case(i):
    chk = _CTX["chk"]
    case = gen_case(chk, i)
    build = _CTX["asan"] if (_CTX.get("asan") and i % 13 == 12) else _CTX["plain"]
    wd = os.path.join(chk.scratch, "c-%d" % os.getpid())
    try:
        v, st = judge_case(case, build, wd)
    finally:
        shutil.rmtree(wd, ignore_errors=True)
    adj = 0
    h = case["hist"]
    for a, b in zip(h, h[1:]):
        ka = "state" if a[2][:2] in ("OH", "OA") else "value"
        kb = "state" if b[2][:2] in ("OH", "OA") else "value"
        if ka != kb:
            adj += 1
    return {"i": i, "viol": v, "st": st, "enabled": case["enabled"], "tie": case["tie"], "adj": adj,
            "mcvs": sorted(set(x[2] for x in h))}


def main(argv):
    chk = core.Check("C06", "exploration", argv)
    plain = chk.build("plain", ["ovniemu"])
    _CTX.update(chk=chk, plain=plain)
    quick = chk.tier == "quick"
    if not quick:
        _CTX["asan"] = chk.build("asan", ["ovniemu"])
    if chk.replay:
        cases = [json.load(open(chk.replay))["replay"]["case"]]
    else:
        cases = list(range(400 if quick else 6000))
    n = ev = lines = adj = ties = 0
    mcvs = set()
    combos = set()
    for o in core.pmap(run_case, cases, chunksize=2):
        v = o["viol"]
        if v and v[0] == "inconclusive":
            chk.note_inconclusive(v[1]); continue
        n += 1
        mcvs.update(o["mcvs"])
        combos.add((o["enabled"], o["tie"]))
        adj += o["adj"]
        if v:
            case = gen_case(chk, o["i"])
            chk.report(v[0], v[1], {"case": o["i"], "enabled": case["enabled"], "observation": v[2]})
            continue
        ev += o["st"]["events"]; lines += o["st"]["lines"]
        ties += 1 if o["tie"] else 0
    c0 = gen_case(chk, cases[0])
    cov = {"evaluations": n, "distinct_nontrivial": len(mcvs),
           "rule": "random histories that the reference model accepts (all eight models, marks, nOS-V/Nanos6 tasks, "
                   "pause/resume/cool/warm, OAs/OAr, kernel context switches; unique clocks, and equal-clock variants "
                   "compared per distinct timestamp) run through ovniemu; every (row,type) step function of thread.prv "
                   "and cpu.prv compared with the reference views after each event. distinct_nontrivial = distinct "
                   "event codes (MCV) exercised in compared histories",
           "samples": [{"case": cases[0], "enabled": c0["enabled"],
                        "first_events": [[h[0], h[1][2], h[2], h[3].hex()] for h in c0["hist"][:25]]}],
           "events_compared": ev, "prv_lines": lines, "equal_clock_cases": ties,
           "adjacent_value_state_pairs": adj, "model_set_variants": len(combos)}
    return chk.finish(cov, assumptions=[
        "spec/events.json (frozen, reviewed) gives channel, action and label of every event; tracking modes as "
        "declared in the .pcf type titles and doc/user/emulation",
        "CPU rows with no unique running thread may show nothing or the documented idle default (Resting)"])
