"""C07 - task life cycle.  (A) bounded-exhaustive legal-prefix closure on the
real task.c/body.c through an in-process ASan+UBSan harness, against a small
body/task machine; (B) end-to-end nOS-V and Nanos6 task histories through the
real ovniemu (closure + random), acceptance and the task rows compared with
the reference model."""

import itertools
import json
import os
import shutil
import struct

import core
import emu
import histgen
import obs
import pv
import refemu
import tracegen
import viewcmp
import c06

PAR, RES, PAUSE, RELAX = 1, 2, 4, 8


# ---------------------------------------------------------------- part A ----
class TM:
    """Body/task machine of the property statement."""

    def __init__(self, flags):
        self.flags = flags                  # {'A': mask, ...}
        self.body = {}                      # (task, bid) -> [state, stack]
        self.stacks = {0: [], 1: []}

    def running_top(self, s):
        st = self.stacks[s]
        if st and self.body[st[-1]][0] == "running":
            return st[-1]
        return None

    def op(self, op, task, bid, s):
        f = self.flags[task]
        key = (task, bid)
        b = self.body.get(key)
        st = self.stacks[s]
        if op == "x":
            if b is None:
                if not (f & PAR) and any(k[0] == task for k in self.body):
                    return False
                state, where = "created", None
            else:
                state, where = b
            if state == "dead":
                if not (f & RES):
                    return False
                state = "created"
            if state != "created" or where is not None:
                return False
            top = self.running_top(s)
            if top is not None and not (self.flags[top[0]] & RELAX):
                return False
            self.body[key] = ["running", s]
            st.append(key)
            return True
        if b is None:
            return False
        state, where = b
        if op == "p":
            if not (f & PAUSE) or state != "running":
                return False
        elif op == "r":
            if state != "paused":
                return False
        elif op == "e":
            if state != "running":
                return False
        if where != s or not st or st[-1] != key:
            return False
        if op == "p":
            b[0] = "paused"
        elif op == "r":
            b[0] = "running"
        else:
            b[0] = "dead"; b[1] = None
            st.pop()
        return True


SYMS = [(op, t, b, s) for op in "xpre" for (t, b) in (("A", 1), ("A", 2), ("B", 1), ("C", 1), ("C", 2)) for s in (0, 1)]
TID = {"A": 10, "B": 20, "C": 30}
# task ids of A, B, C per flag combination (rotating): small, around a power of ten,
# the largest 32-bit values
TASK_IDS = [(10, 20, 30), (99999, 100000, 4294967295), (31415926, 7, 1000000000)]


def replay(flags, seq):
    m = TM(flags)
    for sy in seq:
        if not m.op(*sy):
            return None
    return m


def closure_lines(flags, depth, rng=None, cap=None):
    """All (legal prefix + next symbol) sequences up to `depth` symbols."""
    lines = []
    frontier = [[]]
    for d in range(depth):
        nxt = []
        for p in frontier:
            for sy in SYMS:
                m = replay(flags, p)
                ok = m.op(*sy)
                lines.append((p + [sy], ok, m))
                if ok:
                    nxt.append(p + [sy])
        frontier = nxt
        if cap and len(frontier) > cap and rng is not None:
            frontier = rng.sample(frontier, cap)
    return lines


def fmt_sym(sy):
    return ("%s%s%d%d" % sy) if sy[2] <= 9 else ("%s%s#%d/%d" % sy)


def fmt_line(flags, seq):
    return "%d %d %d : %s\n" % (flags["A"], flags["B"], flags["C"], " ".join(fmt_sym(sy) for sy in seq))


LONG_N = [15, 16, 17, 63, 64, 65, 127, 128, 129, 255, 256, 257, 511, 512, 513, 1000, 1023, 1024, 1025, 1026, 2047, 2048,
          2049, 3000, 4095, 4096, 4097, 5000]


def long_life(flags, rng):
    """A parallel task whose bodies 1..N each run and end (a few stay paused or
    running on the other stack), then one more operation on an old body: the
    rules do not depend on how many bodies a task has had."""
    n = rng.choice(LONG_N) if rng.random() < 0.8 else rng.randint(10, 6000)
    seq = []
    keep = set(rng.sample(range(1, n + 1), rng.choice([0, 0, 1, 3])))
    for b in range(1, n + 1):
        if b in keep and not any(sy[3] == 1 and sy[0] == "x" for sy in seq[-1:]) and len([k for k in keep if k < b]) == 0:
            seq.append(("x", "C", b, 1))        # stays running at the bottom of stack 1
            continue
        seq.append(("x", "C", b, 0))
        seq.append(("e", "C", b, 0))
    last = (rng.choice("xxxpre"), "C", rng.choice([1, 2, n // 2, n - 1, n, rng.randint(1, n), n + 1]), rng.choice([0, 0, 1]))
    m = replay(flags, seq)
    if m is None:
        return None
    ok = m.op(*last)
    return seq + [last], ok, m


def part_a(chk, asan, quick):
    exe = os.path.join(chk.scratch, "task_harness")
    chk.cc(exe, [os.path.join(core.VERIF, "drivers", "task_harness.c")], asan,
           extra=[os.path.join(asan.dir, "src", "emu", "libemu.a"), os.path.join(asan.dir, "src", "libparson-static.a"),
                  os.path.join(asan.dir, "src", "libcommon-static.a")])
    combos = []
    for fa in range(8):
        f = (RES if fa & 1 else 0) | (PAUSE if fa & 2 else 0) | (RELAX if fa & 4 else 0)
        for fc in (PAR, PAR | RES):
            combos.append({"A": f, "B": f, "C": fc})
    combos.append({"A": PAUSE | RES, "B": PAUSE | RELAX, "C": PAR | PAUSE})
    depth = 3 if quick else 4
    rng = chk.rng(0, "taskclosure")

    def work(flags):
        lines = closure_lines(flags, depth, rng, cap=(150 if quick else 1500))
        # random deep sequences on top
        r2 = chk.rng(flags["A"] * 16 + flags["C"], "taskrand")
        for _ in range(150 if quick else 3000):
            seq = []
            m = TM(flags)
            L = r2.randint(5, 30)
            ok = True
            for _ in range(L):
                legal = [sy for sy in SYMS if replay(flags, seq).op(*sy)] if r2.random() < 0.9 else SYMS
                if not legal:
                    break
                sy = r2.choice(legal)
                ok = m.op(*sy)
                seq.append(sy)
                if not ok:
                    break
            mm = replay(flags, seq[:-1]) if seq else TM(flags)
            lines.append((seq, ok, m))
        for _ in range(6 if quick else 60):
            ll = long_life(flags, r2)
            if ll:
                lines.append(ll)
        text = "".join(fmt_line(flags, seq) for (seq, ok, m) in lines if seq)
        lines = [l for l in lines if l[0]]
        ids = TASK_IDS[(flags["A"] + flags["C"]) % len(TASK_IDS)]
        r = core.run_retry([exe], stdin=text.encode(), timeout=300, env={"TASK_IDS": "%d,%d,%d" % ids})
        return flags, lines, r

    nseq = 0
    distinct = set()
    for flags, lines, r in core.pmap(work, combos):
        if r.timeout:
            chk.note_inconclusive("task harness timeout"); continue
        if r.sanitizer or r.sig or r.rc != 0:
            chk.report("task-module:%s:%s" % (core.sanitizer_kind(r.err) if r.sanitizer else "crash", core.first_repo_frame(r.err)),
                       "task harness crashed / sanitizer report", r.brief()); continue
        outl = r.out.strip().split("\n")
        if len(outl) != len(lines):
            raise core.HarnessError("task harness printed %d lines for %d sequences" % (len(outl), len(lines)))
        for (seq, ok, m), l in zip(lines, outl):
            nseq += 1
            distinct.add((flags["A"], flags["C"], tuple(seq)))
            head, *tails = l.split(" | ")
            codes = [int(x) for x in head.split()]
            exp = [0] * (len(seq) - 1) + [0 if ok else -1]
            if codes != exp:
                k = next(i for i in range(min(len(codes), len(exp))) if codes[i] != exp[i]) if len(codes) == len(exp) else len(codes) - 1
                sy = seq[min(k, len(seq) - 1)]
                legal = exp[min(k, len(exp) - 1)] == 0
                chk.report("task-module:%s:%s" % ("rejects-legal" if legal else "accepts-illegal", sy[0]),
                           "flags %s: after %s the module returned %s for %s, the body machine says %s"
                           % (flags, " ".join("%s%s%d@%d" % s for s in seq[-12:-1]), codes[-1] if codes else None,
                              "%s%s%d@%d" % seq[-1], "legal" if ok else "illegal"),
                           {"flags": flags, "seq": [fmt_sym(s) for s in seq]})
                continue
            if ok:
                # what runs on each stack
                for s in (0, 1):
                    top = m.running_top(s)
                    ids = TASK_IDS[(flags["A"] + flags["C"]) % len(TASK_IDS)]
                    want = "%d:%d" % ((ids["ABC".index(top[0])], top[1]) if top else (0, 0))
                    if tails[s] != want:
                        chk.report("task-module:running-body", "stack %d runs %s, machine says %s" % (s, tails[s], want),
                                   {"flags": flags, "seq": [fmt_sym(sy) for sy in seq]})
    return nseq, len(distinct)


# ---------------------------------------------------------------- part B ----
def _desc(rank):
    p = {"pid": 1, "appid": 3, "threads": [10, 11]}
    if rank is not None:
        p["rank"], p["nranks"] = rank, 4
    return {"looms": [{"name": "L", "cpus": [(0, 0), (1, 1)], "procs": [p]}]}


# the rank row must follow the body like the others, also for rank 0 and without rank
DESCS = [_desc(2), _desc(0), _desc(None)]
DESC = DESCS[0]


def desc_of(word):
    return DESCS[(len(word) + sum(len(p) for (_, _, p) in word)) % 3] if word else DESCS[1]
KEYS = [("L", 1, 10), ("L", 1, 11)]


def e2e_symbols(mc):
    syms = []
    for ti in (0, 1):
        for v in "xpre":
            if mc == "V":
                for task, body in ((1, 0), (2, 0), (3, 1), (3, 2)):
                    syms.append((ti, "VT" + v, obs.u32(task, body)))
            else:
                for task in (1, 2):
                    syms.append((ti, "6T" + v, obs.u32(task)))
        if mc == "6":
            syms.append((ti, "6Bb", b"")); syms.append((ti, "6BB", b""))
        else:
            syms.append((ti, "VAp", b"")); syms.append((ti, "VAP", b""))
    return syms


TYPE_LABELS = [(b"first type", b""), (b"same label", b"same label"), (b"", b"")]


def label_variant(word):
    """Which pair of labels the two task types of a case carry: distinct, or the
    same string under two type ids (drawn from the word, so that a case is
    reproducible from the word alone)."""
    import zlib
    return zlib.crc32(repr([(t, m, bytes(p)) for (t, m, p) in word]).encode()) % len(TYPE_LABELS)


def e2e_prologue(mc, variant=0):
    la, lb = TYPE_LABELS[variant]
    h = [(KEYS[0], "OHx", obs.i32(0, 10, 0), False), (KEYS[1], "OHx", obs.i32(1, 11, 0), False),
         (KEYS[0], mc + "Yc", obs.u32(1) + la + b"\0", True), (KEYS[0], mc + "Yc", obs.u32(2) + lb + b"\0", True),
         (KEYS[0], mc + "Tc", obs.u32(1, 1), False), (KEYS[1], mc + "Tc", obs.u32(2, 2), False)]
    if mc == "V":
        h.append((KEYS[0], "VTC", obs.u32(3, 1), False))
    return h


E2E_IDS = [(1, 2, 3), (99999, 100000, 4294967295)]


def build_hist(mc, word):
    evs = e2e_prologue(mc, label_variant(word)) + [(KEYS[ti], mcv, pl, False) for (ti, mcv, pl) in word] + \
          [(KEYS[0], "OHe", b"", False), (KEYS[1], "OHe", b"", False)]
    # the three task ids of a case are small numbers or (every other case) large ones
    ids = E2E_IDS[(label_variant(word) + len(word)) % 2]
    if ids != E2E_IDS[0]:
        def remap(k, mcv, pl, j):
            if len(mcv) == 3 and mcv[0] == mc and mcv[1] == "T" and len(pl) >= 4:
                t = struct.unpack_from("<I", pl)[0]
                if 1 <= t <= 3:
                    pl = struct.pack("<I", ids[t - 1]) + pl[4:]
            return (k, mcv, pl, j)
        evs = [remap(*e) for e in evs]
    return [(5000 + 3 * i, k, m, p, j) for i, (k, m, p, j) in enumerate(evs)]


def model_word(mc, hist, desc=None):
    m = refemu.FullSystem(desc or DESC, mc, {})
    tv, cv = [], []
    for n, (c, k, mcv, p, j) in enumerate(hist):
        try:
            m.event(k, mcv, p, j)
        except refemu.Reject as r:
            return (n, str(r)), tv, cv
        a = m.thread_view(); a.update(m.model_thread_view())
        b = m.cpu_view(); b.update(m.model_cpu_view())
        tv.append(a); cv.append(b)
    return None, tv, cv


def e2e_closure(mc, depth, rng, cap):
    syms = e2e_symbols(mc)
    cases = []
    frontier = [[]]
    for d in range(depth):
        nxt = []
        for p in frontier:
            for s in syms:
                w = p + [s]
                bad, _, _ = model_word(mc, build_hist(mc, w)[:len(e2e_prologue(mc)) + len(w)])
                cases.append((mc, w))
                if bad is None:
                    nxt.append(w)
        frontier = nxt
        if len(frontier) > cap:
            frontier = rng.sample(frontier, cap)
    return cases


_CTX = {}


def run_e2e(case):
    chk, build = _CTX["chk"], _CTX["plain"]
    mc, word = case
    hist = build_hist(mc, word)
    desc = desc_of(word)
    bad, tv, cv = model_word(mc, hist, desc)
    wd = os.path.join(chk.scratch, "t-%d" % os.getpid())
    res = {"case": case, "viol": None, "acc": None}
    try:
        shutil.rmtree(wd, ignore_errors=True)
        tracegen.write_trace(wd, desc, hist, require=histgen.require_of(mc))
        r = emu.emu(build, wd, timeout=60)
        if r.timeout:
            res["viol"] = ("inconclusive", "timeout"); return res
        if r.sig or r.rc not in (0, 1):
            res["viol"] = ("crash:sig%s" % r.sig, "emulator crashed", r.brief()); return res
        acc = emu.accepted(r)
        res["acc"] = acc
        wstr = " ".join("%d:%s(%s)" % (ti, m, p.hex()) for (ti, m, p) in word)
        if acc != (bad is None):
            if bad is None:
                res["viol"] = ("e2e-rejects-legal:%s" % mc, "task history [%s] rejected: %s" % (wstr, emu.last_error(r)), {})
            else:
                ev = hist[bad[0]]
                res["viol"] = ("e2e-accepts-illegal:%s:%s" % (mc, ev[2]), "task history [%s] accepted; reference: %s at %s"
                               % (wstr, bad[1], ev[2]), {})
            return res
        if acc:
            out = pv.Out(wd)
            times = [h[0] - hist[0][0] for h in hist]
            lab = c06.labelled_types(refemu.spec(), {mc, "O"})
            for name, exp in (("thread", tv), ("cpu", cv)):
                d = viewcmp.compare_file(out.prv[name], out.pcf[name], times, exp, None, lab)
                if d:
                    res["viol"] = ("e2e-task-rows:%s:type%d" % (name, d["type"]),
                                   "%s.prv type %d shows %r after %s, reference %r ([%s])"
                                   % (name, d["type"], d["observed"], hist[d["event_index"]][2], d["expected"], wstr), {})
                    return res
        return res
    finally:
        shutil.rmtree(wd, ignore_errors=True)


def rand_e2e(chk, i):
    rng = chk.rng(i, "e2e")
    mc = "V" if i % 2 == 0 else "6"
    syms = e2e_symbols(mc)
    word = []
    L = rng.randint(4, 50)
    npro = len(e2e_prologue(mc))
    inject = rng.random() < 0.3
    for n in range(L):
        rng.shuffle(syms)
        chosen = None
        for s in syms:
            bad, _, _ = model_word(mc, build_hist(mc, word + [s])[:npro + len(word) + 1])
            if (bad is None) != (inject and n == L - 1):
                chosen = s; break
        if chosen is None:
            break
        word.append(chosen)
    return (mc, word)


MP_SHAPES = [[(2, [1, 1])], [(2, [1, 1]), (2, [1, 1])], [(3, [2, 1, 1])], [(2, [1]), (2, [1, 2])]]


def run_mp(i):
    """Task histories of several processes (and of nOS-V and Nanos6 side by side) in which the task and
    task type ids are the same small numbers in every process, as in an SPMD code; the labels of equal ids
    differ from process to process in half of the cases.  Acceptance and every thread / CPU view (task id,
    type label, rank ...) are compared with the reference model after every event (the C06 comparison)."""
    import c06
    chk, build = _CTX["chk"], _CTX["plain"]
    rng = chk.rng(i, "mp")
    shape = MP_SHAPES[i % len(MP_SHAPES)]
    enabled = ["V", "6", "V6"][(i // len(MP_SHAPES)) % 3]
    desc = c06.make_desc(rng, shape)
    g = histgen.Gen(rng, desc, enabled, {}, weights={"task": 14, "model": 6, "state": 1, "aff": 1, "misc": 0, "mark": 0,
                                                      "kernel": 0})
    g.local_ids = True
    g.run(rng.choice([60, 150, 300]))
    lint = rng.random() < 0.5
    hist = g.finish(close_regions=lint)
    case = {"desc": desc, "enabled": enabled, "marks": {}, "hist": hist, "lint": lint}
    wd = os.path.join(chk.scratch, "mp-%d" % os.getpid())
    try:
        v, st = c06.judge_case(case, build, wd)
    finally:
        shutil.rmtree(wd, ignore_errors=True)
    return {"i": i, "viol": v, "events": len(hist)}


def run_deep(depth):
    """One thread nests `depth` nOS-V task bodies, each over the paused one below (x1 p1 x2 p2 ... xN),
    and unwinds them again: a legal history whatever the depth (judged like the multi-process ones)."""
    import c06, tracegen
    chk, build = _CTX["chk"], _CTX["plain"]
    desc = tracegen.simple_system(nthreads=1, ncpus=1)
    key = tracegen.all_keys(desc)[0]
    u = obs.u32
    evs = [("OHx", obs.i32(0, key[2], 0), False), ("VYc", u(1) + b"deep\0", True)]
    evs += [("VTc", u(t, 1), False) for t in range(1, depth + 1)]
    for t in range(1, depth):
        evs += [("VTx", u(t, 0), False), ("VTp", u(t, 0), False)]
    evs += [("VTx", u(depth, 0), False), ("VTe", u(depth, 0), False)]
    for t in range(depth - 1, 0, -1):
        evs += [("VTr", u(t, 0), False), ("VTe", u(t, 0), False)]
    evs.append(("OHe", b"", False))
    hist = [(7000 + 3 * n, key, m, p, j) for n, (m, p, j) in enumerate(evs)]
    case = {"desc": desc, "enabled": "V", "marks": {}, "hist": hist, "lint": depth % 2 == 0}
    wd = os.path.join(chk.scratch, "deep-%d" % os.getpid())
    try:
        v, st = c06.judge_case(case, build, wd)
    finally:
        shutil.rmtree(wd, ignore_errors=True)
    return {"i": depth, "viol": v, "events": len(hist)}


def main(argv):
    chk = core.Check("C07", "exploration", argv)
    asan = chk.build("asan", ["emu", "parson-static", "common-static"])
    plain = chk.build("plain", ["ovniemu"])
    _CTX.update(chk=chk, plain=plain)
    quick = chk.tier == "quick"
    na, da = part_a(chk, asan, quick)
    rng = chk.rng(0, "e2eclosure")
    cases = []
    for mc in "V6":
        cases += e2e_closure(mc, 3 if quick else 5, rng, 60 if quick else 250)
    cases += [rand_e2e(chk, i) for i in range(150 if quick else 4000)]
    if chk.replay:
        rp = json.load(open(chk.replay))["replay"]
        cases = [(rp["mc"], [(a, b, bytes.fromhex(c)) for a, b, c in rp["word"]])]
    nb = acc = 0
    seen = set()
    for res in core.pmap(run_e2e, cases, chunksize=4):
        v = res["viol"]
        if v and v[0] == "inconclusive":
            chk.note_inconclusive(v[1]); continue
        nb += 1
        mc, word = res["case"]
        seen.add((mc, tuple((a, b, c) for a, b, c in word)))
        acc += 1 if res["acc"] else 0
        if v:
            chk.report(v[0], v[1], {"mc": mc, "word": [(a, b, c.hex()) for a, b, c in word], "observation": v[2]})
    nmp = 0
    if not chk.replay:
        for res in core.pmap(run_mp, range(120 if quick else 2400), chunksize=2):
            v = res["viol"]
            if v and v[0] == "inconclusive":
                chk.note_inconclusive(v[1]); continue
            nmp += 1
            if v:
                chk.report("multi-process:" + v[0], v[1], {"mp": res["i"], "observation": v[2] if len(v) > 2 else None})
    ndeep = 0
    if not chk.replay:
        # depths around the powers of two up to 500 (the deepest the unchanged emulator was seen to take)
        for res in core.pmap(run_deep, [255, 256, 257, 300] if quick else [63, 64, 65, 127, 128, 129, 255, 256, 257, 300, 400, 500]):
            v = res["viol"]
            if v and v[0] == "inconclusive":
                chk.note_inconclusive(v[1]); continue
            ndeep += 1
            if v:
                chk.report("deep-nesting:" + v[0], "%d nested bodies: %s" % (res["i"], v[1]), {"depth": res["i"]})
    cov = {"evaluations": na + nb + nmp + ndeep, "deep_nesting_histories": ndeep, "distinct_nontrivial": da + len(seen), "multi_process_histories": nmp,
           "rule": "(A) real task.c/body.c in-process (ASan+UBSan): for 17 flag combinations of {parallel, resurrect, pause, "
                   "relax-nesting}, every legal prefix of bounded length over execute/pause/resume/end x {A1,A2,B1,C1,C2} x 2 "
                   "stacks extended by every next op (return code of the next op and the running body per stack compared) + "
                   "random sequences to length 30; (B) nOS-V and Nanos6 task histories on two threads through ovniemu: "
                   "closure over VTx/VTp/VTr/VTe (normal tasks 1,2; parallel task 3 bodies 1,2; API pause region) and "
                   "6Tx/6Tp/6Tr/6Te (+ blocking region), random to length 50; acceptance and types 10-15 / 35-38 per event; (C) task-heavy generated histories of 2-4 processes in which "
                   "task and type ids repeat from process to process (and between nOS-V and Nanos6), every view compared per event. "
                   "distinct_nontrivial = distinct sequences executed",
           "samples": [{"harness": "4 4 1 : xA10 pA10 xB10", "expected": "0 0 0"},
                       {"e2e": "VTx(1,0) VTp(1,0) VTx(2,0) VTe(2,0) VTr(1,0) VTe(1,0)", "expected": "accepted"}],
           "harness_sequences": na, "e2e_traces": nb, "e2e_accepted": acc, "exhaustive": True,
           "exhaustive_scope": "all op sequences up to length %d on the task module for each flag combination (frontier "
                               "capped per level in the quick tier)" % (3 if quick else 4)}
    return chk.finish(cov, assumptions=[
        "after a failed operation nothing further is compared (the emulator aborts there)",
        "Nanos6 bare nesting 6Tx A,6Tp A,6Tx B is rejected by the subsystem re-entry rule (C08 carve-out); the reference "
        "model includes that rule, so such histories are run but agree by construction"])
