"""C08 - subsystem events nest like a stack and map to documented values in
all eight models.  Properly nested words, single-fault variants, thread-state
preconditions, depth limit and lint-mode cuts are run through the real
ovniemu; acceptance and the shown labels are compared with the reference
stack model over the frozen event table."""

import json
import os
import shutil

import core
import emu
import histgen
import obs
import pv
import refemu
import tracegen
import viewcmp
import c06

# three threads in two processes: lint must look at every thread, not only the
# first one of a process
DESC = {"looms": [{"name": "L", "cpus": [(0, 0), (1, 1), (2, 2)],
                   "procs": [{"pid": 1, "appid": 1, "threads": [10, 11]}, {"pid": 2, "appid": 2, "threads": [20]}]}]}
KEYS = [("L", 1, 10), ("L", 1, 11), ("L", 2, 20)]
KEY = KEYS[0]
LINT_MODELS = "V6DMTP"


def pairs_of(sp, mc):
    res = []
    for mcv, e in sorted(sp["events"].items()):
        if e["model"] == mc and e["op"] == "push":
            res.append((mcv, e["partner"], e["ch"], e["label"]))
    return res


def gen_words(chk, mc, quick):
    """Yields dicts: {kind, word: [(mcv)...], lint: bool}.  The prologue
    (OHx) and epilogue (OHe) are added by the runner; pseudo-events 'OHp',
    'OHr', 'OHc', 'KCO', 'KCI' may appear inside."""
    sp = refemu.spec()
    rng = chk.rng(ord(mc), "words")
    P = pairs_of(sp, mc)
    chans = sorted(set(p[2] for p in P))
    dup = {c: sp["models"][mc]["channels"][c]["dup"] for c in chans}
    out = []
    # (1) every pair once
    for (a, b, ch, lab) in P:
        out.append({"kind": "pair", "word": [a, b], "lint": True})
    nrand = 25 if quick else 400

    def nested(depth_max, n):
        """random properly nested word with no immediate re-entry"""
        w = []
        stack = {c: [] for c in chans}
        for _ in range(n):
            ch = rng.choice(chans)
            st = stack[ch]
            if st and (rng.random() < 0.45 or len(st) >= depth_max):
                a, b, _, lab = st.pop()
                w.append(b)
            else:
                cands = [p for p in P if p[2] == ch and not (st and st[-1][3] == p[3])]
                if not cands:
                    continue
                p = rng.choice(cands)
                st.append(p); w.append(p[0])
        closing = []
        for ch in chans:
            while stack[ch]:
                closing.append(stack[ch].pop()[1])
        return w, closing

    for _ in range(nrand):
        w, closing = nested(rng.randint(1, 12), rng.randint(2, 60))
        full = w + closing
        out.append({"kind": "nested", "word": full, "lint": True})
        # (5) cut before the last k leaves: accepted without -l, rejected with -l
        if closing and mc in LINT_MODELS:
            k = rng.randint(1, len(closing))
            cut = w + closing[:len(closing) - k]
            out.append({"kind": "cut-nolint", "word": cut, "lint": False})
            out.append({"kind": "cut-lint", "word": cut, "lint": True})
        # (3) single faults, truncated right after the faulty event
        if len(full) >= 2:
            # wrong partner: replace one leave by the leave of a different value
            idx = [i for i, e in enumerate(full) if sp["events"][e]["op"] == "pop"]
            if idx:
                i = rng.choice(idx)
                e = sp["events"][full[i]]
                others = [p[1] for p in P if p[3] != e["label"] and p[2] == e["ch"]]
                if others:
                    out.append({"kind": "fault-wrong-leave", "word": full[:i] + [rng.choice(others)], "lint": False})
            # deleted enter: the matching leave comes with that region never opened
            idx = [i for i, e in enumerate(full) if sp["events"][e]["op"] == "push"]
            if idx:
                i = rng.choice(idx)
                e = sp["events"][full[i]]
                # keep events up to the leave that closed this enter
                depth = 0
                j = None
                for k2 in range(i + 1, len(full)):
                    f = sp["events"][full[k2]]
                    if f["ch"] != e["ch"]:
                        continue
                    if f["op"] == "push":
                        depth += 1
                    elif depth == 0:
                        j = k2; break
                    else:
                        depth -= 1
                if j is not None:
                    out.append({"kind": "fault-deleted-enter", "word": full[:i] + full[i + 1:j + 1], "lint": False})
            # unmatched leave appended after a complete word
            p = rng.choice(P)
            out.append({"kind": "fault-unmatched-leave", "word": full + [p[1]], "lint": False})
    # immediate re-entry of the innermost region (only the stated direction:
    # models that forbid duplicates must reject; others are not judged)
    for (a, b, ch, lab) in rng.sample(P, min(len(P), 6 if quick else len(P))):
        out.append({"kind": "reentry", "word": [a, a], "lint": False, "judge": not dup[ch]})
    # (2) depth limit: alternate two values to depth 512 and 513
    for ch in chans:
        ps = [p for p in P if p[2] == ch]
        if len(ps) >= 2:
            a, b = ps[0], ps[1]
            for depth in (512, 513):
                seq = [(a if i % 2 == 0 else b) for i in range(depth)]
                w = [p[0] for p in seq] + [p[1] for p in reversed(seq)]
                out.append({"kind": "depth-%d" % depth, "word": w if depth == 512 else w[:depth], "lint": depth == 512})
    # (4) thread-state preconditions
    for (a, b, ch, lab) in rng.sample(P, min(len(P), 8 if quick else len(P))):
        out.append({"kind": "state-paused", "word": ["OHp", a, "OHr"], "lint": False})
        out.append({"kind": "state-paused-closed", "word": ["OHp", a, b, "OHr"], "lint": False})
        out.append({"kind": "state-cooling", "word": ["OHc", a, b, "OHp", "OHr"], "lint": False})
        out.append({"kind": "state-warming", "word": ["OHp", "OHw", a, b, "OHr"], "lint": False})
        out.append({"kind": "state-out-of-cpu", "word": ["KCO", a, b, "KCI"], "lint": False})
        # the same with another thread moving this one to a free CPU in between
        # (a woken worker migrated while blocked): the precondition is about the
        # thread's own state, not about where it is
        mv = (1, "OAr", obs.i32(2, KEYS[0][2]).hex())
        out.append({"kind": "state-out-of-cpu-moved", "word": ["KCO", mv, a, b, "KCI"], "lint": False, "thread": 0,
                    "free_cpu": True})
        out.append({"kind": "state-paused-moved", "word": ["OHp", mv, a, "OHr"], "lint": False, "thread": 0, "free_cpu": True})
        out.append({"kind": "state-cooling-moved", "word": ["OHc", mv, a, b, "OHp", "OHr"], "lint": False, "thread": 0,
                    "free_cpu": True})
    return out


def word_to_hist(word, thread=0, free_cpu=False):
    """The word runs on KEYS[thread]; the other two threads only execute and
    end.  An element (thread index, mcv, hex payload) is an event of another
    thread.  With free_cpu the third thread pauses at once and only resumes at
    the very end (no thread is running on its CPU in between)."""
    h = []
    t = 1000
    for i, k in enumerate(KEYS):
        h.append((t, k, "OHx", obs.i32(i, k[2], 0), False)); t += 3
    if free_cpu:
        h.append((t, KEYS[2], "OHp", b"", False)); t += 3
    key = KEYS[thread]
    for e in word:
        t += 3
        if isinstance(e, (tuple, list)):
            h.append((t, KEYS[e[0]], e[1], bytes.fromhex(e[2]), False))
        else:
            h.append((t, key, e, b"", False))
    if free_cpu:
        for k in KEYS:
            if k == KEYS[2]:
                t += 3
                h.append((t, k, "OHr", b"", False))
            t += 3
            h.append((t, k, "OHe", b"", False))
        return h
    for k in KEYS:
        t += 3
        h.append((t, k, "OHe", b"", False))
    return h


_CTX = {}


def run_word(case):
    chk, build = _CTX["chk"], _CTX["plain"]
    mc = case["mc"]
    sp = refemu.spec()
    enabled = mc + ("K" if mc != "K" else "")
    hist = word_to_hist(case["word"], case.get("thread", 0), case.get("free_cpu", False))
    model = refemu.FullSystem(DESC, enabled, {})
    bad = None
    tv, cv = [], []
    for n, (c, k, mcv, p, j) in enumerate(hist):
        try:
            model.event(k, mcv, p, j)
        except refemu.Reject as r:
            bad = (n, str(r)); break
        a = model.thread_view(); a.update(model.model_thread_view())
        b = model.cpu_view(); b.update(model.model_cpu_view())
        tv.append(a); cv.append(b)
    expect = bad is None
    if expect and case["lint"] and model.open_regions(LINT_MODELS):
        expect = False
        bad = (len(hist), "open regions at the end in lint mode")
    res = {"case": case, "viol": None, "acc": None, "lines": 0}
    if case["kind"] == "reentry" and not case.get("judge", True):
        expect = None
    wd = os.path.join(chk.scratch, "w-%d" % os.getpid())
    try:
        shutil.rmtree(wd, ignore_errors=True)
        bd = bool(case.get("breakdown"))
        # the requirements are carried by every thread, or (one case in three) only by the last thread of
        # the trace, which is not the one that emits the word
        tracegen.write_trace(wd, DESC, hist, require=histgen.require_of(enabled),
                             extra_meta={"nosv": {"can_breakdown": True}} if (bd and mc == "V") else None,
                             require_on="last" if (len(hist) % 3 == 1 and not bd) else "all")
        r = emu.emu(build, wd, (["-l"] if case["lint"] else []) + (["-b"] if bd else []), timeout=60)
        if r.timeout:
            res["viol"] = ("inconclusive", "timeout"); return res
        if r.sig or r.rc not in (0, 1):
            res["viol"] = ("crash:%s:sig%s" % (case["kind"], r.sig), "emulator crashed", r.brief()); return res
        acc = emu.accepted(r)
        res["acc"] = acc
        short = " ".join(str(w) for w in case["word"][:12]) + (" ...(%d)" % len(case["word"]) if len(case["word"]) > 12 else "")
        if expect is not None and acc != expect:
            if expect:
                res["viol"] = ("rejects-legal:%s:%s" % (mc, case["kind"]), "model %s: properly nested word [%s] rejected%s: %s"
                               % (mc, short, " (lint)" if case["lint"] else "", emu.last_error(r)), {"word": case["word"]})
            else:
                res["viol"] = ("accepts-illegal:%s:%s" % (mc, case["kind"]), "model %s: word [%s]%s accepted; reference: %s"
                               % (mc, short, " (lint)" if case["lint"] else "", bad[1]), {"word": case["word"]})
            return res
        if acc and bad is None:
            out = pv.Out(wd)
            times = [h[0] - hist[0][0] for h in hist]
            lab = c06.labelled_types(sp, set(enabled) | {"O"})
            for name, exp in (("thread", tv), ("cpu", cv)):
                d = viewcmp.compare_file(out.prv[name], out.pcf[name], times, exp, None, lab)
                if d:
                    ev = hist[d["event_index"]]
                    res["viol"] = ("value-mapping:%s:type%d" % (name, d["type"]),
                                   "%s.prv type %d shows %r after %s, documented value is %r (word [%s])"
                                   % (name, d["type"], d["observed"], ev[2], d["expected"], short), {"word": case["word"]})
                    return res
            res["lines"] = len(out.prv["thread"].lines)
        return res
    finally:
        shutil.rmtree(wd, ignore_errors=True)


def run_task_word(i):
    """Subsystem regions interleaved with the task events that share the
    subsystem stack (nOS-V, Nanos6): histories from the legal-history generator
    (nested task starts under other regions, pauses, several threads); every
    one is properly nested, so it must be accepted and show the documented
    values."""
    chk, build = _CTX["chk"], _CTX["plain"]
    rng = chk.rng(i, "taskwords")
    mc = "V6"[i % 2]
    g = histgen.Gen(rng, DESC, mc, {}, weights={"task": 8, "model": 10, "state": 1, "aff": 0, "misc": 0, "mark": 0, "kernel": 0})
    g.run(rng.choice([40, 120, 300]))
    lint = rng.random() < 0.5
    hist = g.finish(close_regions=lint)
    case = {"desc": DESC, "enabled": mc, "marks": {}, "hist": hist, "lint": lint}
    wd = os.path.join(chk.scratch, "t-%d" % os.getpid())
    try:
        v, st = c06.judge_case(case, build, wd)
    finally:
        shutil.rmtree(wd, ignore_errors=True)
    return {"i": i, "mc": mc, "viol": v, "events": len(hist), "mcvs": sorted(set(h[2] for h in hist))}


def main(argv):
    chk = core.Check("C08", "exploration", argv)
    plain = chk.build("plain", ["ovniemu"])
    _CTX.update(chk=chk, plain=plain)
    quick = chk.tier == "quick"
    cases = []
    for mc in "V6DMTPK":
        for n, c in enumerate(gen_words(chk, mc, quick)):
            c["mc"] = mc
            c["thread"] = n % 3
            cases.append(c)
            # the lint verdict must not depend on other options: every second lint case
            # of the two models that have a breakdown view also runs with -b
            if mc in "V6" and c["kind"] in ("cut-lint", "cut-nolint", "nested", "pair") and n % 2 == 0:
                c2 = dict(c); c2["breakdown"] = True; c2["kind"] = c["kind"] + "+b"
                cases.append(c2)
    # ovni flush channel (single, set/unset): OF[ OF] pairs, double OF[, OF] alone
    for w, kind in ((["OF[", "OF]"], "pair"), (["OF[", "OF[", "OF]"], "fault-double-enter"), (["OF]"], "fault-unmatched-leave"),
                    (["OF[", "OF]", "OF["], "cut-nolint"),
                    # the ovni model's own events need a thread that is not out of the CPU
                    (["KCO", "OF[", "OF]", "KCI"], "state-out-of-cpu"), (["OF[", "KCO", "OF]", "KCI"], "state-out-of-cpu"),
                    (["OF[", "KCO", "KCI", "OF]"], "pair"), (["KCO", "OB.", "KCI"], "state-out-of-cpu"),
                    (["KCO", "OU[", "OU]", "KCI"], "state-out-of-cpu"), (["KCO", "OHp", "KCI", "OHr"], "state-out-of-cpu")):
        cases.append({"mc": "O", "kind": kind, "word": w, "lint": False})
    tcases = list(range(60 if quick else 1500))
    if chk.replay:
        rp = json.load(open(chk.replay))["replay"]
        if "taskword" in rp:
            cases, tcases = [], [rp["taskword"]]
        else:
            tcases = []
            cases = [{"mc": rp["mc"], "kind": rp["kind"], "word": rp["word"], "lint": rp["lint"], "thread": rp.get("thread", 0),
                      "free_cpu": rp.get("free_cpu", False), "breakdown": rp.get("breakdown", False)}]
    n = acc = rej = 0
    kinds = {}
    seen = set()
    for res in core.pmap(run_word, cases, chunksize=4):
        v = res["viol"]
        c = res["case"]
        if v and v[0] == "inconclusive":
            chk.note_inconclusive(v[1]); continue
        n += 1
        kinds[c["kind"]] = kinds.get(c["kind"], 0) + 1
        seen.add((c["mc"], c["kind"], tuple(str(w) for w in c["word"][:40]), c["lint"], c.get("thread", 0)))
        if res["acc"]:
            acc += 1
        else:
            rej += 1
        if v:
            chk.report(v[0], v[1], {"mc": c["mc"], "kind": c["kind"], "word": c["word"][:600], "lint": c["lint"],
                                    "thread": c.get("thread", 0), "free_cpu": c.get("free_cpu", False), "breakdown": c.get("breakdown", False),
                                    "observation": v[2] if len(v) > 2 else {}})
    tn = tev = 0
    tmcvs = set()
    for res in core.pmap(run_task_word, tcases):
        v = res["viol"]
        if v and v[0] == "inconclusive":
            chk.note_inconclusive(v[1]); continue
        tn += 1; tev += res["events"]; tmcvs.update(res["mcvs"])
        if v:
            chk.report("task-words:%s:%s" % (res["mc"], v[0]), v[1], {"taskword": res["i"], "observation": v[2]})
    n += tn
    cov = {"evaluations": n, "distinct_nontrivial": len(seen) + tn,
           "rule": "per model (nOS-V, Nanos6, NODES, MPI, TAMPI, OpenMP, kernel, ovni flush): every enter/leave pair once with "
                   "its label; random properly nested words (depth <= 12, no immediate re-entry) and their cuts with/without "
                   "-l; single faults truncated right after the faulty event (wrong leave, deleted enter, unmatched leave); "
                   "immediate re-entry for channels that forbid duplicates; chains to depth 512 (accept) and 513 (reject); "
                   "the same events with the thread paused / cooling / warming / out of CPU; nOS-V and Nanos6 histories in which "
                   "subsystem regions and task events (which push the task body on the same stack) interleave on three "
                   "threads. distinct_nontrivial = distinct (model, kind, word, lint) executed + task histories",
           "samples": [{"mc": c["mc"], "kind": c["kind"], "word": c["word"][:10], "lint": c["lint"]} for c in cases[:3]],
           "cases_by_kind": kinds, "emulator_accepted": acc, "emulator_rejected": rej,
           "task_histories": tn, "task_history_events": tev, "task_history_event_codes": len(tmcvs)}
    return chk.finish(cov, assumptions=[
        "spec/events.json (frozen) gives partners, channels, labels, duplicate policy and required thread state",
        "models that allow duplicates may accept immediate re-entry: only the stated direction is judged",
        "kernel context switch, Nanos6 thread type and ovni flush are not subsystem/function regions for the lint clause"])
