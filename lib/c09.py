"""C09 - crash consistency.  The deterministic rtdrv driver is killed with
SIGKILL on entry to every file system call of the runtime (enumerated from a
strace baseline of the same script), in direct mode and with OVNI_TMPDIR on
tmpfs and on disk, single- and multi-threaded.  After each kill the final
trace directory is examined: a stream marked finished must hold every flushed
event, and ovniemu must not succeed while a visible stream lacks flushed
events."""

import json
import os
import shutil
import subprocess
import tempfile

import core
import emu
import inject
import obs
import rt


def script_single(variant):
    ops = ["proc 1 node 77", "thread", "init 500", "vercheck", "cpu 0 0", "require nosv 2.0.0",
           "ev OHx now %s" % obs.i32(0, 500, 0).hex(), "ev OB. now 0102", "mark_type 3 0 t", "flush",
           "ev OB. now 0a0b0c0d", "ev OB. now -", "flush"]
    if variant == "bigmeta":
        # metadata larger than one stdio block: 70 CPUs and a long attribute
        i = ops.index("cpu 0 0")
        ops[i + 1:i + 1] = ["cpu %d %d" % (k, k) for k in range(1, 70)]
        ops += ["attr_str test.long %s" % ("x" * 200)]
    if variant == "autoflush-normal":
        # more than 2 MiB of normal events between two explicit flushes: the buffer is
        # flushed from inside ovni_ev_emit
        ops += ["bulk 80000", "flush"]
    if variant == "nearcap":
        # a jumbo event within 24 bytes of the buffer capacity arriving at a non-empty buffer
        ops += ["ev OB. now 0102", "jumbo OB. now %d 7" % (2097152 - 16 - 10), "ev OB. now -", "flush"]
    if variant == "autoflush":
        ops += ["jumbo OB. now 1500000 3", "jumbo OB. now 900000 4", "ev OB. now -", "flush"]
    else:
        ops += ["jumbo OB. now 9000 3", "ev OB. now -", "attr_str test.key value", "attr_flush", "flush"]
    ops += ["ev OHe now -", "flush", "free", "end", "fini"]
    return "\n".join(ops) + "\n"


def script_two_ordered():
    """Two threads; the first is freed (and relocated) before the second."""
    out = ["proc 1 node 77"]
    for k in range(2):
        tid = 500 + k
        out += ["thread", "init %d" % tid]
        if k == 0:
            out += ["cpu 0 0", "cpu 1 1"]
        out += ["ev OHx now %s" % obs.i32(k, tid, 0).hex(), "ev OB. now 0102", "jumbo OB. now 20000 3", "ev OB. now -",
                "ev OHe now -", "flush"]
        out += (["free", "barrier"] if k == 0 else ["barrier", "ev OB. now 0a0b", "flush", "free"])
        out += ["end"]
    out.append("fini")
    return "\n".join(out) + "\n"


def script_multi():
    out = ["proc 1 node 77"]
    for k in range(3):
        tid = 500 + k
        out += ["thread", "init %d" % tid]
        if k == 0:
            out += ["cpu 0 0", "cpu 1 1", "cpu 2 2"]
        out += ["ev OHx now %s" % obs.i32(k, tid, 0).hex()]
        for j in range(3):
            out += ["ev OB. now %04x" % (j + 1), "jumbo OB. now %d %d" % (3000 + 500 * k, j), "flush"]
        out += ["ev OHe now -", "flush", "free", "end"]
    out.append("fini")
    return "\n".join(out) + "\n"


def required_events(recs):
    """Events that were certainly flushed: emitted (call returned) before the
    last ovni_flush() call that returned."""
    last_flush = None
    for i, r in enumerate(recs):
        if r.kind == "flush" and r.returned:
            last_flush = i
    if last_flush is None:
        return []
    req = []
    for r in recs[:last_flush]:
        if r.kind in ("ev", "jumbo") and r.returned:
            req.append((r.clock, r.mcv, bytes(r.payload), r.jumbo))
        elif r.kind == "mark" and r.returned:
            req.append(("mark", r.mcv, bytes(r.payload)))
    return req


def decoded_prefix(path):
    try:
        data = open(path, "rb").read()
    except OSError:
        return None
    try:
        evs = obs.decode(data)
    except obs.DecodeError as ex:
        evs = ex.events
    out = []
    for e in evs:
        if rt.is_flush_marker(e):
            continue
        out.append(e)
    return out


def lacks(required, evs):
    """True if `required` is not a prefix of the decoded (non-marker) events."""
    if evs is None:
        return bool(required) or True
    if len(evs) < len(required):
        return True
    for x, e in zip(required, evs):
        if x[0] == "mark":
            if e.mcv != x[1] or e.payload != x[2]:
                return True
        elif (e.clock, e.mcv, e.payload, e.jumbo) != x:
            return True
    return False


_CTX = {}


def mode_env(mode, wd):
    env = {}
    if mode == "tmp-tmpfs":
        env["OVNI_TMPDIR"] = os.path.join(wd, "tmp")
    elif mode == "tmp-disk":
        env["OVNI_TMPDIR"] = tempfile.mkdtemp(prefix="ovni-verif-c09-", dir=_CTX["disk"])
    elif mode == "tmp-is-trace":
        # OVNI_TMPDIR is another name of the trace directory (a symbolic link to it)
        os.makedirs(os.path.join(wd, "trace"), exist_ok=True)
        env["OVNI_TMPDIR"] = os.path.join(wd, "tmplink")
        if not os.path.islink(env["OVNI_TMPDIR"]):
            os.symlink(os.path.join(wd, "trace"), env["OVNI_TMPDIR"])
    return env


def examine(wd, logdir):
    """Oracle over the final directory after a kill.  Returns (violation or
    None, state signature)."""
    chk, plain = _CTX["chk"], _CTX["plain"]
    final = os.path.join(wd, "trace")
    # per-thread requirement from the emit logs
    req = {}
    for lg in os.listdir(logdir):
        recs = rt.parse_log(os.path.join(logdir, lg))
        tids = [r.tid for r in recs if r.kind == "init"]
        if tids:
            req[tids[0]] = required_events(recs)
    sig = []
    visible_lacking = []
    viol = None
    for sd in obs.find_streams(final):
        jp = os.path.join(sd, "stream.json")
        if not os.path.exists(jp):
            sig.append((os.path.basename(sd), "no-json"))
            continue
        try:
            meta = json.load(open(jp))
            finished = meta.get("ovni", {}).get("finished") == 1
            tid = meta.get("ovni", {}).get("tid")
        except (ValueError, AttributeError):
            meta, finished, tid = None, False, None
        evs = decoded_prefix(os.path.join(sd, "stream.obs"))
        if tid is None:
            try:
                tid = int(os.path.basename(sd).split(".")[1])
            except ValueError:
                tid = -1
        lack = lacks(req.get(tid, []), evs)
        sig.append((os.path.basename(sd), "json" if meta else "torn-json", "finished" if finished else "unfinished",
                    "none" if evs is None else ("lacking" if lack else "complete")))
        if lack:
            visible_lacking.append(tid)
        if finished and lack and viol is None:
            viol = ("finished-marker-before-data",
                    "stream of thread %s is marked finished in the final directory while its stream.obs there %s"
                    % (tid, "is missing" if evs is None else "lacks flushed events (%d of %d present)"
                       % (len(evs), len(req.get(tid, [])))))
    r = emu.emu(plain, final, timeout=60) if os.path.isdir(final) else None
    accepted = bool(r and emu.accepted(r))
    sig.append(("emu", "ok" if accepted else "fail"))
    if accepted and viol is None:
        # success must cover every visible stream: a thread directory that holds a
        # stream.json (whatever is in it) and events is in the emulation, i.e. has
        # its row in thread.row - otherwise its flushed events are missing from what
        # the emulator reports success on
        try:
            rows = [l.strip() for l in open(os.path.join(final, "thread.row")) if l.strip().startswith("TH")]
        except OSError:
            rows = None
        if rows is not None:
            seen_tids = set()
            for l in rows:
                try:
                    seen_tids.add(int(l.split(".")[-1]))
                except ValueError:
                    pass
            for sd in obs.find_streams(final):
                if not os.path.exists(os.path.join(sd, "stream.json")):
                    continue
                try:
                    tid_ = int(os.path.basename(sd).split(".")[1])
                except ValueError:
                    continue
                evs_ = decoded_prefix(os.path.join(sd, "stream.obs"))
                if evs_ and tid_ not in seen_tids:
                    viol = ("emulator-accepts-ignoring-visible-stream",
                            "ovniemu reported success but the stream of thread %d (metadata file present, %d events on "
                            "disk) is not part of the emulation" % (tid_, len(evs_)))
                    break
    if not accepted and os.path.isdir(final) and viol is None:
        # the same streams gathered through symbolic links (per-node loom directories linked into one
        # trace directory) are the same trace: what the emulator refuses directly it must refuse there too
        gather = os.path.join(wd, "gathered")
        shutil.rmtree(gather, ignore_errors=True)
        os.makedirs(os.path.join(gather, "cfg"))
        n = 0
        for x in sorted(os.listdir(final)):
            if x.startswith("loom."):
                os.symlink(os.path.join(final, x), os.path.join(gather, x)); n += 1
        if n:
            r2 = emu.emu(plain, gather, timeout=60)
            if emu.accepted(r2):
                viol = ("emulator-accepts-through-links-what-it-refuses-directly",
                        "ovniemu refuses the trace directory but reports success on a directory that links the same loom "
                        "directories in")
            sig.append(("emu-links", "ok" if emu.accepted(r2) else "fail"))
        shutil.rmtree(gather, ignore_errors=True)
    if accepted and visible_lacking and viol is None:
        viol = ("emulator-accepts-trace-lacking-flushed-events",
                "ovniemu reported success although visible streams %s lack flushed events" % visible_lacking)
    elif accepted and visible_lacking:
        viol = (viol[0] + "+emulator-accepts", viol[1] + "; and ovniemu reported success")
    return viol, tuple(sorted(sig))


def run_point(arg):
    chk, drv = _CTX["chk"], _CTX["drv"]
    name, script, mode, inline, sc, k, rep = arg
    fault = None
    if isinstance(rep, str):          # "ENOSPC": make the call fail instead of killing the process
        fault, rep = rep, 0
    wd = os.path.join(chk.scratch, "k-%d" % os.getpid())
    shutil.rmtree(wd, ignore_errors=True)
    os.makedirs(wd)
    env = mode_env(mode, wd)
    res = {"arg": (name, mode, sc, k, rep), "viol": None, "fired": False, "sig": None}
    try:
        log = os.path.join(wd, "strace.log")
        e = dict(env)
        if rep:
            e["OVNI_VERIF_DELAY"] = str(rep)
        if sc == "SHORTWRITE":
            # no kill: the kernel transfers fewer bytes than asked in some writes
            # (genuine partial writes made by the driver's write()/writev() shim)
            e["RTDRV_SHORTWRITE"] = str(k)
            r = rt.run_script(drv, script, wd, env=e, timeout=120, inline=inline)
            res["fired"] = not r.timeout and "shortwrites=0" not in r.out
        elif fault:
            r = rt.run_script(drv, script, wd, env=e, timeout=120, inline=inline,
                              wrapper=inject.strace_argv(log, "%s:error=%s:when=%d" % (sc, fault, k)))
            res["fired"] = inject.fired_error(log)
        else:
            r = rt.run_script(drv, script, wd, env=e, timeout=120, inline=inline,
                              wrapper=inject.strace_argv(log, "%s:signal=KILL:when=%d" % (sc, k)))
            res["fired"] = inject.fired_kill(log)
        if not res["fired"]:
            return res
        v, sig = examine(wd, os.path.join(wd, "log"))
        res["sig"] = sig
        if v:
            res["viol"] = (v[0] + ":" + mode, v[1], {"script": name, "mode": mode, "kill": "%s #%d" % (sc, k)})
        return res
    finally:
        shutil.rmtree(wd, ignore_errors=True)
        if "OVNI_TMPDIR" in env and mode == "tmp-disk":
            shutil.rmtree(env["OVNI_TMPDIR"], ignore_errors=True)


def run_huge(mode):
    """No fault at all, but a stream larger than 2 GiB: after a normal end the final
    directory must hold every flushed byte of a stream it marks as finished, and the
    emulator must not report success on less.  Sizes only (no decoding of 2 GiB)."""
    chk, drv, plain = _CTX["chk"], _CTX["drv"], _CTX["plain"]
    wd = os.path.join(chk.scratch, "huge-%d" % os.getpid())
    shutil.rmtree(wd, ignore_errors=True)
    os.makedirs(wd)
    n, size = 2100, 1048576
    ops = ["proc 1 node0 100", "thread", "init 500", "cpu 0 0", "ev OHx now %s" % obs.i32(0, 500, 0).hex()]
    ops += ["jumbo OB. now %d 7" % size] * n + ["ev OHe now -", "flush", "free", "end", "fini"]
    res = {"arg": ("huge", mode, "none", 0, 0), "viol": None, "fired": False, "sig": None}
    try:
        r = rt.run_script(drv, "\n".join(ops) + "\n", wd, env=mode_env(mode, wd), timeout=900)
        if r.timeout or r.rc != 0 or "RTDRV-DONE" not in r.out:
            return res                      # the library stopping the program is C10's business
        res["fired"] = True
        flushed = 8 + 24 + n * (16 + size) + 12      # header, OHx, jumbos, OHe; flush markers come on top
        final = os.path.join(wd, "trace")
        sds = obs.find_streams(final)
        st = []
        for sd in sds:
            try:
                fin = json.load(open(os.path.join(sd, "stream.json"))).get("ovni", {}).get("finished") == 1
            except (OSError, ValueError, AttributeError):
                fin = False
            try:
                sz = os.path.getsize(os.path.join(sd, "stream.obs"))
            except OSError:
                sz = -1
            st.append((fin, sz))
            if fin and sz < flushed:
                res["viol"] = ("finished-marker-before-data:huge:" + mode,
                               "stream marked finished in the final directory holds %d bytes, %d were flushed "
                               "(no fault injected; 2 GiB stream)" % (sz, flushed), {"mode": mode, "script": "huge"})
        e = emu.emu(plain, final, timeout=600) if os.path.isdir(final) else None
        ok = bool(e and emu.accepted(e))
        if ok and any(sz < flushed for (_, sz) in st) and not res["viol"]:
            res["viol"] = ("emulator-accepts-trace-lacking-flushed-events:huge:" + mode,
                           "ovniemu reported success on a stream lacking flushed bytes", {"mode": mode, "script": "huge"})
        res["sig"] = tuple(sorted([("huge", "finished" if f else "unfinished", "complete" if z >= flushed else "lacking")
                                   for (f, z) in st] + [("emu", "ok" if ok else "fail")]))
        return res
    finally:
        shutil.rmtree(wd, ignore_errors=True)


def run_twofs(variant):
    """No fault: a previous job has left its finished trace in the trace directory; the new job writes
    through OVNI_TMPDIR on another file system.  Both are fresh tmpfs in a private mount namespace, so the
    old files in the trace directory and the new temporary files carry equal inode numbers on different
    devices.  After the normal end the usual examination applies to the trace directory."""
    chk, drv = _CTX["chk"], _CTX["drv"]
    wd = os.path.join(chk.scratch, "twofs-%d" % os.getpid())
    shutil.rmtree(wd, ignore_errors=True)
    for d in ("A", "B"):
        os.makedirs(os.path.join(wd, d))
    res = {"arg": ("twofs-" + variant, "tmp-other-fs", "none", 0, 0), "viol": None, "fired": False, "sig": None}
    holder = subprocess.Popen(["unshare", "-m", "sh", "-c",
                               "mount -t tmpfs none %s/A && mount -t tmpfs none %s/B && echo ready && exec sleep 600"
                               % (wd, wd)], stdout=subprocess.PIPE, stderr=subprocess.DEVNULL)
    try:
        if holder.stdout.readline().strip() != b"ready":
            return res                      # no permission to mount: not fired, counted as inconclusive
        wrapper = ["nsenter", "-t", str(holder.pid), "-m"]
        tr = os.path.join(wd, "B", "ovni")
        r0 = rt.run_script(drv, script_single("small"), wd, env={"OVNI_TRACEDIR": tr}, timeout=120, inline=True,
                           wrapper=wrapper)
        if r0.rc != 0 or "RTDRV-DONE" not in r0.out:
            return res
        shutil.rmtree(os.path.join(wd, "log"), ignore_errors=True)
        r = rt.run_script(drv, script_single(variant), wd, timeout=120, inline=True, wrapper=wrapper,
                          env={"OVNI_TRACEDIR": tr, "OVNI_TMPDIR": os.path.join(wd, "A", "tmp")})
        subprocess.call(wrapper + ["cp", "-r", tr, os.path.join(wd, "trace")])
        if r.timeout or r.rc != 0 or "RTDRV-DONE" not in r.out:
            return res
        res["fired"] = True
        v, sig = examine(wd, os.path.join(wd, "log"))
        res["sig"] = sig
        if v:
            res["viol"] = (v[0] + ":tmp-other-fs", v[1] + " (no fault injected; previous job's trace in the directory, "
                           "OVNI_TMPDIR on another file system with equal inode numbers)",
                           {"script": "twofs-" + variant, "mode": "tmp-other-fs"})
        return res
    finally:
        holder.kill(); holder.wait()
        shutil.rmtree(wd, ignore_errors=True)


class NoFaultViolation(Exception):
    """The run without any injected fault already fails the oracle."""

    def __init__(self, key, what, info):
        Exception.__init__(self, what)
        self.key, self.what, self.info = key, what, info


def enumerate_points(name, script, mode, inline):
    chk, drv = _CTX["chk"], _CTX["drv"]
    wd = os.path.join(chk.scratch, "base-%s-%s" % (name, mode))
    shutil.rmtree(wd, ignore_errors=True)
    os.makedirs(wd)
    env = mode_env(mode, wd)
    try:
        e = dict(env)
        if inline:
            e["RTDRV_INLINE"] = "1"
        res, calls = inject.baseline(drv, script, wd, e, wd)
        if res.sig == 6 and res.rc not in (97, 98):
            raise NoFaultViolation("no-fault-run:library-abort:%s" % mode, "the library aborted the run of %s/%s in which "
                                   "nothing was injected: %s" % (name, mode, res.err.strip().split("\n")[-1][:200]), res.brief())
        if res.rc != 0 or "RTDRV-DONE" not in res.out:
            raise core.HarnessError("baseline run of %s/%s failed: %s" % (name, mode, res.err[-300:]))
        v, sig = examine(wd, os.path.join(wd, "log"))
        if v:
            raise NoFaultViolation("no-fault-run:%s:%s" % (v[0], mode), "run of %s/%s without any injected fault: %s"
                                   % (name, mode, v[1]), {"script": name, "mode": mode, "state": [list(x) for x in sig]})
        if ("emu", "ok") not in sig:
            raise NoFaultViolation("no-fault-run:emulator-rejects:%s" % mode, "run of %s/%s without any injected fault is "
                                   "rejected by ovniemu" % (name, mode), {"script": name, "mode": mode,
                                                                           "state": [list(x) for x in sig]})
        markers = [os.path.join(wd, "trace")]
        if "OVNI_TMPDIR" in env:
            markers.append(env["OVNI_TMPDIR"])
        pts = inject.points_after(calls, markers)
        return pts
    finally:
        shutil.rmtree(wd, ignore_errors=True)
        if "OVNI_TMPDIR" in env and mode == "tmp-disk":
            shutil.rmtree(env["OVNI_TMPDIR"], ignore_errors=True)


def main(argv):
    chk = core.Check("C09", "fault_enumeration", argv)
    if not inject.strace_works():
        raise core.HarnessError("strace cannot attach in this sandbox")
    plain = chk.build("plain", ["ovni", "ovniemu"])
    drv = rt.build_rtdrv(chk, plain)
    disk = "/var/tmp" if os.access("/var/tmp", os.W_OK) else tempfile.gettempdir()
    _CTX.update(chk=chk, plain=plain, drv=drv, disk=disk)
    quick = chk.tier == "quick"
    scripts = [("single-small", script_single("small"), True), ("single-autoflush-normal", script_single("autoflush-normal"), True)]
    if not quick:
        scripts.append(("single-autoflush", script_single("autoflush"), True))
    # the same program padded so that its stream is an exact multiple of a block size
    aligned = {}
    for mult in ([1024] if quick else [512, 1024, 4096, 65536]):
        al = rt.align_script(drv, script_single("small"), mult, chk.scratch, inline=True)
        if al:
            scripts.append(("single-aligned-%d" % mult, al[0], True))
            aligned[str(mult)] = al[1]
    modes = ["direct", "tmp-tmpfs", "tmp-disk"]
    # no fault at all, but explicit flushes at the moment the buffer holds exactly 64 KiB / 1 MiB (and one byte
    # less or more): only the examination of the run without injection is used
    for tgt in (65536, 1048576):
        for d in (-1, 0, 1):
            ops = script_single("small").rstrip("\n").split("\n")
            k = len(ops) - 1 - ops[::-1].index("ev OHe now -")
            ops[k:k] = ["flush", "jumbo OB. now %d 9" % (tgt + d - 24 - 16), "flush"]
            try:
                enumerate_points("single-pow2-%d%+d" % (tgt, d), "\n".join(ops) + "\n", "direct" if d else "tmp-tmpfs", True)
            except NoFaultViolation as nf:
                chk.report(nf.key, nf.what, nf.info)
    work = []
    exhaustive = {}
    for name, script, inline in scripts:
        for mode in modes:
            try:
                pts = enumerate_points(name, script, mode, inline)
            except NoFaultViolation as nf:
                chk.report(nf.key, nf.what, nf.info); continue
            # one point per (syscall, k): the script is deterministic and single-threaded
            seen = set()
            for (sc, k, pid, rest) in pts:
                seen.add((sc, k))
            # the 1 KiB relocation copy loop of a large stream is thousands of identical
            # read/write calls: keep the first 6, the last 3 and a sample in between
            bysc = {}
            for sc, k in sorted(seen):
                bysc.setdefault(sc, []).append(k)
            thin = chk.rng(len(work), "thin")
            for sc, ks in bysc.items():
                if len(ks) > 40:
                    mid = ks[6:-3]
                    ks = ks[:6] + sorted(thin.sample(mid, min(len(mid), 12 if quick else 80))) + ks[-3:]
                    seen -= set((sc, k) for k in bysc[sc] if k not in ks)
                for k in ks:
                    work.append((name, script, mode, inline, sc, k, 0))
            exhaustive["%s/%s" % (name, mode)] = len(seen)
            for seed in range(1, 4 if quick else 12):
                work.append((name, script, mode, inline, "SHORTWRITE", seed, 0))
            # the process may also die (or go on) after a *failed* call: one
            # failing write/close/open per point during relocation, then the same
            # examination of the final directory
            for (sc, k) in sorted(seen):
                if mode != "direct" and sc in ("write", "close", "openat", "read"):
                    work.append((name, script, mode, inline, sc, k, "ENOSPC"))
                    if sc in ("write", "read"):
                        work.append((name, script, mode, inline, sc, k, "EINTR"))     # a signal without SA_RESTART
                elif mode == "direct" and sc == "write":
                    # a failed write while the trace is being produced: the process stops or
                    # goes on, what it leaves must still not be finished-and-lacking
                    work.append((name, script, mode, inline, sc, k, "EIO"))
    # multi-threaded: kill points sampled per syscall, repeated (schedules differ)
    ms = script_multi()
    rng = chk.rng(0, "multi")
    for mode in modes:
        try:
            pts = enumerate_points("multi3", ms, mode, False)
        except NoFaultViolation as nf:
            chk.report(nf.key, nf.what, nf.info); continue
        bysc = {}
        for (sc, k, pid, rest) in pts:
            bysc.setdefault(sc, set()).add(k)
        for sc, ks in bysc.items():
            ks = sorted(ks)
            pick = ks if len(ks) <= (6 if quick else 40) else rng.sample(ks, 6 if quick else 40)
            for k in pick:
                for rep in range(1 if quick else 4):
                    work.append(("multi3", ms, mode, False, sc, k, rep))
    fired = 0
    states = set()
    nofire = 0
    per_mode = {}
    for res in core.pmap(run_point, work, chunksize=2):
        if not res["fired"]:
            nofire += 1
            continue
        fired += 1
        states.add((res["arg"][1], res["sig"]))
        per_mode[res["arg"][1]] = per_mode.get(res["arg"][1], 0) + 1
        if res["viol"]:
            chk.report(res["viol"][0], res["viol"][1], res["viol"][2])
    # a stream larger than 2 GiB, no fault: relocated (quick) and written directly as well (thorough)
    for res in core.pmap(run_huge, ["tmp-tmpfs"] if quick else ["tmp-tmpfs", "direct"], jobs=2):
        if not res["fired"]:
            nofire += 1
            continue
        fired += 1
        states.add((res["arg"][1], res["sig"]))
        per_mode[res["arg"][1]] = per_mode.get(res["arg"][1], 0) + 1
        if res["viol"]:
            chk.report(res["viol"][0], res["viol"][1], res["viol"][2])
    for res in core.pmap(run_twofs, ["nearcap", "bigmeta"] if quick else ["nearcap", "bigmeta", "autoflush", "autoflush-normal"], jobs=2):
        if not res["fired"]:
            nofire += 1
            continue
        fired += 1
        states.add((res["arg"][1], res["sig"]))
        per_mode[res["arg"][1]] = per_mode.get(res["arg"][1], 0) + 1
        if res["viol"]:
            chk.report(res["viol"][0], res["viol"][1], res["viol"][2])
    chk.inconclusive += nofire
    cov = {"evaluations": fired, "distinct_nontrivial": len(states), "aligned_stream_sizes": aligned,
           "rule": "kill points = every (file system call, occurrence) of the strace baseline of each deterministic "
                   "single-thread script after the first runtime mkdir, in direct mode and with OVNI_TMPDIR on tmpfs and on "
                   "ext4 (exhaustive per script and mode, except that long runs of identical 1 KiB copy reads/writes are sampled), and one failed write/close/open/read per such point; one run without any fault writing a stream larger than 2 GiB; runs without fault after a previous job, OVNI_TMPDIR on a second file system with equal inode numbers; plus sampled points of a 3-thread script; a point counts when "
                   "strace reports the SIGKILL. distinct_nontrivial = distinct (mode, final-directory state) signatures "
                   "observed after the kill (per stream: metadata present/torn, finished or not, data none/lacking/complete; "
                   "emulator verdict)",
           "samples": [{"kill": "write #7", "mode": "tmp-tmpfs",
                        "oracle": "finished=1 in the final directory => final stream.obs holds every flushed event; "
                                  "ovniemu exit 0 => no visible stream lacks flushed events"}],
           "kill_points_fired": fired, "injections_not_fired": nofire, "per_mode": per_mode,
           "exhaustive_points": exhaustive, "exhaustive": True,
           "exhaustive_scope": "all kill points of the single-thread scripts; the 3-thread script is sampled"}
    return chk.finish(cov, assumptions=[
        "flushed events = events whose emit call returned before the last ovni_flush() that returned (client-boundary "
        "emit log written with write(2))", "a process kill, not a power loss: page cache contents survive",
        "a stream directory without stream.json is not visible and is not judged"])
