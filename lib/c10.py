"""C10 - I/O faults are never silent.  Every file system call of the runtime
(enumerated from a strace baseline of a deterministic single-thread script, with
and without OVNI_TMPDIR) is made to fail once with ENOSPC / EIO / EACCES (and
EEXIST / ENOTDIR for mkdir).  The driver must either terminate with a
diagnostic or leave a complete, valid trace; a stream that reached relocation
must keep a complete copy in one of the two directories."""

import json
import os
import shutil
import tempfile

import core
import emu
import inject
import obs
import rt
import c09

ERRORS = {"default": ["ENOSPC", "EIO", "EACCES"], "write": ["ENOSPC", "EINTR", "RET0", "EIO", "EBADF", "EACCES", "EAGAIN", "EFBIG", "EDQUOT", "EPERM", "EROFS"],
          "pwrite64": ["ENOSPC", "EINTR"], "mkdir": ["ENOSPC", "EACCES", "EEXIST", "ENOTDIR", "EIO"],
          "openat": ["ENOSPC", "EACCES", "ENOENT", "EMFILE", "EIO", "EINTR", "ENFILE", "EROFS", "EDQUOT", "ENOMEM", "ELOOP"], "read": ["EIO", "EINTR", "EACCES", "EBADF", "EAGAIN", "EISDIR"], "close": ["EIO", "ENOSPC", "EBADF", "EINTR", "EDQUOT"],
          "unlink": ["EACCES", "EIO", "EBUSY"], "rmdir": ["EACCES", "EBUSY", "EIO"], "newfstatat": ["EACCES", "EIO"],
          "getdents64": ["EIO", "EACCES"],
          # calls that a different implementation of the relocation might use
          "rename": ["ENOENT", "EXDEV", "EACCES", "EIO"], "renameat": ["ENOENT", "EXDEV", "EIO"],
          "renameat2": ["ENOENT", "EXDEV", "EIO"], "sendfile": ["EIO", "ENOSPC", "EINVAL"],
          "copy_file_range": ["EIO", "ENOSPC", "EXDEV"], "link": ["ENOENT", "EXDEV", "EIO"], "linkat": ["ENOENT", "EXDEV", "EIO"],
          "writev": ["ENOSPC", "EIO", "EINTR"], "pwritev": ["ENOSPC", "EIO"], "ftruncate": ["EIO", "EACCES"],
          "fsync": ["EIO", "ENOSPC"], "fdatasync": ["EIO", "ENOSPC"]}

_CTX = {}


def complete_copy(dirs, tid, recs):
    """Is there a stream.obs for thread tid in one of dirs that holds every
    event of the emit log (in order, byte-exact)?"""
    for d in dirs:
        for sd in obs.find_streams(d) if os.path.isdir(d) else []:
            if not os.path.basename(sd) == "thread.%d" % tid:
                continue
            p = os.path.join(sd, "stream.obs")
            if not os.path.exists(p):
                continue
            try:
                evs = obs.decode_file(p)
            except obs.DecodeError:
                continue
            if rt.compare_stream(evs, recs) is None:
                return True
    return False


def run_point(arg):
    chk, drv, plain = _CTX["chk"], _CTX["drv"], _CTX["plain"]
    name, script, mode, sc, k, err = arg[:6]
    onpath = arg[6] if len(arg) > 6 else None        # fault only on calls touching this file (relative to the work dir)
    wd = os.path.join(chk.scratch, "f-%d" % os.getpid())
    shutil.rmtree(wd, ignore_errors=True)
    os.makedirs(wd)
    env = c09.mode_env(mode, wd)
    res = {"arg": (name, mode, sc, k, err), "viol": None, "fired": False, "outcome": None}
    try:
        log = os.path.join(wd, "strace.log")
        if sc == "SHORTWRITE":
            e = dict(env); e["RTDRV_SHORTWRITE"] = str(k)
            r = rt.run_script(drv, script, wd, env=e, timeout=120, inline=True)
            res["fired"] = "shortwrites=0" not in r.out
        elif sc == "FSIZE":
            # a file size limit k bytes below the size of the stream, in force from just before
            # ovni_thread_free: the kernel then hands out genuine short counts and EFBIG to whatever call
            # the relocation is made of
            r0 = rt.run_script(drv, script, wd, env=env, timeout=120, inline=True)
            sd0 = obs.find_streams(os.path.join(wd, "trace"))
            if r0.rc != 0 or len(sd0) != 1:
                return res
            size = os.path.getsize(os.path.join(sd0[0], "stream.obs"))
            shutil.rmtree(wd, ignore_errors=True); os.makedirs(wd)
            env = c09.mode_env(mode, wd)
            lines = script.rstrip("\n").split("\n")
            kf = len(lines) - 1 - lines[::-1].index("free")
            lines.insert(kf, "fsize %d" % max(1, size - k))
            r = rt.run_script(drv, "\n".join(lines) + "\n", wd, env=env, timeout=120, inline=True)
            res["fired"] = True
        else:
            paths = None
            if onpath:
                base_ = env["OVNI_TMPDIR"] if onpath.startswith("TMP/") else os.path.join(wd, "trace")
                paths = [os.path.join(base_, onpath.split("/", 1)[1])]
            spec = "%s:error=%s:when=%d" % (sc, err, k)
            if err == "RET0":
                spec = "%s:retval=0:when=%d" % (sc, k)      # the call transfers nothing and reports no error
            r = rt.run_script(drv, script, wd, env=env, timeout=120, inline=not onpath,
                              wrapper=inject.strace_argv(log, spec, paths=paths))
            res["fired"] = inject.fired_error(log)
        if r.timeout:
            res["fired"] = False
            return res
        if not res["fired"]:
            return res
        final = os.path.join(wd, "trace")
        tmp = env.get("OVNI_TMPDIR")
        logs = {}
        for lg in os.listdir(os.path.join(wd, "log")):
            recs = rt.parse_log(os.path.join(wd, "log", lg))
            tids = [x.tid for x in recs if x.kind == "init"]
            if tids:
                logs[tids[0]] = recs
        returned_normally = (r.rc == 0 and r.sig == 0 and "RTDRV-DONE" in r.out)
        diag = r.err.strip() != ""
        where = {"script": name, "mode": mode, "fault": "%s #%d -> %s" % (sc, k, err)}
        if returned_normally:
            # the trace must be complete and valid
            prob = None
            for tid, recs in logs.items():
                if not complete_copy([final], tid, recs):
                    prob = "stream of thread %d in the final directory is missing or differs from what was emitted" % tid
                    break
                jp = os.path.join(obs.stream_dir(final, "node", 77, tid), "stream.json")
                try:
                    fin = json.load(open(jp)).get("ovni", {}).get("finished") == 1
                except (OSError, ValueError):
                    fin = False
                if not fin:
                    prob = "metadata of thread %d in the final directory is missing, torn or not finished" % tid
                    break
            if prob is None:
                e2 = emu.emu(plain, final, ["-l"], timeout=60)
                if not emu.accepted(e2):
                    prob = "ovniemu -l rejects the trace: " + emu.last_error(e2)
            if prob:
                lost = any(not complete_copy([final] + ([tmp] if tmp else []), tid, recs) for tid, recs in logs.items())
                key = "silent-loss" if lost else "silent-incomplete"
                place = "relocation" if sc == "FSIZE" or (tmp and sc in ("read", "write", "openat", "close", "unlink", "getdents64")
                                                           and _in_relocation(log, tmp, final)) else "run"
                res["viol"] = ("%s:%s:%s:%s" % (key, mode, sc, place),
                               "the driver returned normally (exit 0%s) after %s #%d failed with %s, but %s%s"
                               % (", warnings only" if diag else ", no message", sc, k, err, prob,
                                  "; no complete copy is left anywhere" if lost else ""), where)
            res["outcome"] = "returned-%s" % ("complete" if not prob else "INCOMPLETE")
        else:
            if not diag:
                res["viol"] = ("terminated-without-diagnostic:%s" % sc, "rc=%s sig=%s and empty stderr" % (r.rc, r.sig), where)
            res["outcome"] = "terminated-sig%s-rc%s" % (r.sig, r.rc)
            # never delete the only complete copy: threads that had reached
            # relocation (free called after the last flush returned)
            for tid, recs in logs.items():
                reached = any(x.kind == "free" for x in recs)
                if tmp and reached and not complete_copy([final, tmp], tid, recs):
                    res["viol"] = ("only-copy-deleted:%s:%s" % (mode, sc),
                                   "thread %d had a complete stream before relocation; after %s #%d -> %s no complete copy "
                                   "remains in the temporary or the final directory" % (tid, sc, k, err), where)
        return res
    finally:
        shutil.rmtree(wd, ignore_errors=True)
        if mode == "tmp-disk" and "OVNI_TMPDIR" in env:
            shutil.rmtree(env["OVNI_TMPDIR"], ignore_errors=True)


def _in_relocation(log, tmp, final):
    return True


def main(argv):
    chk = core.Check("C10", "fault_enumeration", argv)
    if not inject.strace_works():
        raise core.HarnessError("strace cannot attach in this sandbox")
    plain = chk.build("plain", ["ovni", "ovniemu"])
    drv = rt.build_rtdrv(chk, plain)
    disk = "/var/tmp" if os.access("/var/tmp", os.W_OK) else tempfile.gettempdir()
    _CTX.update(chk=chk, plain=plain, drv=drv, disk=disk)
    c09._CTX.update(chk=chk, plain=plain, drv=drv, disk=disk)
    quick = chk.tier == "quick"
    scripts = [("single-small", c09.script_single("small")), ("single-bigmeta", c09.script_single("bigmeta")),
               ("single-nearcap", c09.script_single("nearcap")), ("single-autoflush-normal", c09.script_single("autoflush-normal"))]
    if not quick:
        scripts.append(("single-autoflush", c09.script_single("autoflush")))
        al = rt.align_script(drv, c09.script_single("small"), 1024, chk.scratch, inline=True)
        if al:
            scripts.append(("single-aligned-1024", al[0]))
    modes = ["direct", "tmp-tmpfs", "tmp-is-trace"] + ([] if quick else ["tmp-disk"])
    work = []
    npoints = {}
    rng = chk.rng(0, "faults")
    for name, script in scripts:
        for mode in modes:
            try:
                pts = c09.enumerate_points(name, script, mode, True)
            except c09.NoFaultViolation as nf:
                chk.report(nf.key, nf.what, nf.info); continue
            seen = set()
            for (sc, k, pid, rest) in pts:
                if (sc, k) in seen:
                    continue
                seen.add((sc, k))
            pts = sorted(seen)
            # the 4 KiB copy loop yields hundreds of identical read/write
            # points: keep the first 6, the last 3 and a sample in between
            bysc = {}
            for sc, k in pts:
                bysc.setdefault(sc, []).append(k)
            for sc, ks in bysc.items():
                if len(ks) > 40:
                    mid = ks[6:-3]
                    ks = ks[:6] + rng.sample(mid, min(len(mid), 10 if quick else 60)) + ks[-3:]
                for k in ks:
                    errs = ERRORS.get(sc, ERRORS["default"])
                    if quick and len(errs) > 2:
                        # the first two always, the others in turn over the occurrences of the call
                        errs = errs[:2] + [errs[2 + (k - 1) % (len(errs) - 2)]]
                    for e in errs:
                        work.append((name, script, mode, sc, k, e))
            npoints["%s/%s" % (name, mode)] = len(pts)
            for seed in range(1, 6 if quick else 30):
                work.append((name, script, mode, "SHORTWRITE", seed, "partial"))
            if mode == "tmp-tmpfs" and "bulk" not in script:
                for delta in ([1, 100, 4097, 6000] if quick else [1, 2, 100, 1023, 1025, 4095, 4097, 6000, 8000]):
                    work.append((name, script, mode, "FSIZE", delta, "EFBIG"))
    # two threads relocating one after the other (the first has finished before the
    # second is freed): a fault that hits only the first thread's files
    two = c09.script_two_ordered()
    for mode in [m for m in modes if m != "direct"]:
        for sc in ("write", "openat", "close"):
            for err in ("ENOSPC", "EIO"):
                work.append(("two-ordered", two, mode, sc, 1, err, "FINAL/loom.node/proc.77/thread.500/stream.obs"))
        work.append(("two-ordered", two, mode, "read", 1, "EIO", "TMP/loom.node/proc.77/thread.500/stream.obs"))
        work.append(("two-ordered", two, mode, "write", 1, "ENOSPC", "FINAL/loom.node/proc.77/thread.500/stream.json"))
    fired = nofire = 0
    outcomes = {}
    sites = set()
    for res in core.pmap(run_point, work, chunksize=2):
        if not res["fired"]:
            nofire += 1; continue
        fired += 1
        outcomes[res["outcome"]] = outcomes.get(res["outcome"], 0) + 1
        sites.add((res["arg"][1], res["arg"][2], res["arg"][4], res["outcome"]))
        if res["viol"]:
            chk.report(res["viol"][0], res["viol"][1], res["viol"][2])
    chk.inconclusive += nofire
    cov = {"evaluations": fired, "distinct_nontrivial": len(sites),
           "rule": "one injected failure per run: every (file system call, occurrence) of the strace baseline of each "
                   "deterministic single-thread script after the first runtime mkdir (long runs of identical 4 KiB copy "
                   "reads/writes are sampled) x error codes, with and without OVNI_TMPDIR, plus genuine partial writes; a "
                   "run counts when strace reports the (INJECTED) failure. distinct_nontrivial = distinct (mode, syscall, "
                   "errno, outcome) combinations observed",
           "samples": [{"fault": "write #5 -> ENOSPC", "mode": "direct", "oracle": "abort with diagnostic, or exit 0 with a "
                        "complete valid trace accepted by ovniemu -l"}],
           "faults_fired": fired, "injections_not_fired": nofire, "outcomes": outcomes, "baseline_points": npoints}
    return chk.finish(cov, assumptions=[
        "single-threaded driver: strace error counters are per thread, so exactly one call fails",
        "cosmetic clean-up failures (rmdir/unlink of temporaries) may warn and return normally as long as the final trace "
        "is complete", "'terminates with a diagnostic' = non-zero exit or SIGABRT with non-empty stderr"])
