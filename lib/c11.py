"""C11 - concurrent tracing threads are isolated; process init/fini happen
exactly once.  libovni built with ThreadSanitizer; (1) N threads run
independent random op scripts concurrently against one process, released from
a barrier, with schedule perturbation (hook H2) under several seeds: no TSan
report with a frame in the library, and each thread's stream and metadata must
be exactly what that thread emitted and set; (2) N threads race
ovni_proc_init and then ovni_proc_fini: exactly one call returns, all others
are refused with a diagnostic."""

import json
import os
import re
import shutil
import struct

import core
import obs
import rt
import c01

TSAN_ENV = {"TSAN_OPTIONS": "halt_on_error=0:exitcode=0:report_signal_unsafe=0:second_deadlock_stack=1:history_size=4"}


def tsan_reports(stderr):
    """Split stderr into ThreadSanitizer report blocks; returns list of
    (summary key, block) for blocks that have a frame inside the library."""
    blocks = re.split(r"(?m)^={18}$", stderr)
    out = []
    for b in blocks:
        if "WARNING: ThreadSanitizer" not in b:
            continue
        kind = re.search(r"WARNING: ThreadSanitizer: ([^(\n]+)", b).group(1).strip()
        frames = re.findall(r"#\d+ (\S+) (\S+)", b)
        lib = [(fn, loc) for fn, loc in frames if loc.startswith(core.REPO + "/src/")]
        if not lib:
            out.append(("harness:" + kind, b))
            continue
        # outermost entry points of the two stacks, line numbers stripped
        fns = []
        for fn, loc in lib:
            if fn not in fns:
                fns.append(fn)
        out.append(("%s:%s" % (kind.replace(" ", "-"), "+".join(sorted(fns)[:4])), b))
    return out


def gen_mt(chk, i):
    rng = chk.rng(i)
    nth = rng.choice([2, 3, 4, 8, 16])
    out = ["proc 1 node 900"]
    expect = {}
    # thread churn: in a third of the runs the threads come in rounds - one
    # thread lives and is freed, then a group starts together, is freed, and so
    # on (a runtime replacing its workers).  Every section passes all 2R barriers;
    # its own life lies after barrier number `slot`.
    churn = i % 3 == 1
    rounds = rng.randint(2, 5) if churn else 0
    group = rng.randint(2, 6) if churn else 0
    slots = []
    if churn:
        for r_ in range(rounds):
            slots.append(2 * r_)
            slots.extend([2 * r_ + 1] * group)
        nth = len(slots)
    # thread ids: neighbours, or (two runs in three) pairs that differ by a power of two up to the largest
    # pid_max (ids congruent modulo 2^12 .. 2^21 alive at the same time)
    stride = [0, 32768, rng.choice([4096, 65536, 1 << 20, 1 << 21])][i % 3]
    for k in range(nth):
        tid = 3000 + k if not stride else 3000 + k // 2 + stride * (k % 2)
        shc = c01.Shadow()
        first_wave = churn
        ops = (["barrier"] * slots[k] if churn else ["barrier"]) + ["init %d" % tid]
        cpus = []
        for c in range(rng.randint(0, 3)):
            cpus.append((k * 10 + c, k * 10 + c)); ops.append("cpu %d %d" % cpus[-1])
        reqs = {"ovni": None}
        if rng.random() < 0.7:
            ops.append("require model%d 1.%d.0" % (k, k)); reqs["model%d" % k] = "1.%d.0" % k
        attrs = {}
        for a in range(rng.randint(0, 4)):
            key = "verif.t%d.k%d" % (k, a)
            val = "value-%d-%d-%d" % (i, k, a)
            ops.append("attr_str %s %s" % (key, val)); attrs[key] = val
        if rng.random() < 0.5:
            ops.append("rank %d %d" % (k, 64))
        # mark types: several threads of the process define the same type numbers (with the same title and
        # kind, as the API asks); each definition belongs in the metadata of the thread that made it
        marks = sorted(t for t in (90, 91) if (i + k + t) % 3 != 0)
        for t in marks:
            ops.append("mark_type %d %d shared type %d" % (t, t % 2, t))
        n = rng.choice([50, 500, 3000]) if not first_wave else rng.choice([5, 50])
        heavy = (i % 4 == 2 and not churn)
        if heavy:
            # every thread fills its 2 MiB buffer with small events and never flushes by hand: the
            # automatic flushes of several threads fall into the same stretch of the run
            n = 20
            ops.append("bulk %d" % rng.choice([175000, 180000, 200000, 360000]))
        for _ in range(n):
            r = rng.random()
            if r < 0.03:
                ops.append("flush"); shc.flush()
            elif r < 0.05:
                ops.append(c01.op_jumbo(rng, shc, rng.choice([0, 5, 4096, rng.randint(0, 300000)])))
            elif r < 0.08:
                ops.append(c01.op_mark(rng, shc))
            elif r < 0.09:
                ops.append("attr_flush")
            else:
                ops.append(c01.op_event(rng, shc))
        ops += ["flush", "free"] + (["barrier"] * (2 * rounds - slots[k]) if churn else [])
        out += ["thread"] + ops + ["end"]
        expect[tid] = {"cpus": cpus, "attrs": attrs, "reqs": reqs, "rank": None, "marks": marks}
    out.append("fini")
    return {"script": "\n".join(out) + "\n", "nth": nth, "expect": expect,
            "tmpdir": rng.random() < 0.4, "delay": rng.randint(1, 10 ** 6), "churn": rounds}


_CTX = {}


def run_mt(i):
    chk, drv = _CTX["chk"], _CTX["drv"]
    case = gen_mt(chk, i)
    wd = os.path.join(chk.scratch, "mt%d" % i)
    res = {"i": i, "viol": [], "inconclusive": None, "events": 0, "nth": case["nth"], "order": None, "reports": 0}
    try:
        os.makedirs(wd)
        env = dict(TSAN_ENV)
        env["OVNI_VERIF_DELAY"] = str(case["delay"])
        if case["tmpdir"]:
            env["OVNI_TMPDIR"] = os.path.join(wd, "tmp")
        r = rt.run_script(drv, case["script"], wd, env=env, timeout=300)
        if r.timeout:
            res["inconclusive"] = "driver timeout"; return res
        if r.rc in (97, 98):
            raise core.HarnessError("rtdrv: " + r.err[-300:])
        for key, block in tsan_reports(r.err):
            res["reports"] += 1
            if key.startswith("harness:"):
                raise core.HarnessError("ThreadSanitizer report in the driver itself:\n" + block[:1500])
            res["viol"].append(("tsan:" + key, "ThreadSanitizer report inside libovni", {"report": block[:3000]}))
        if r.rc != 0 or "RTDRV-DONE" not in r.out:
            res["viol"].append(("driver-died:rc=%s:sig=%s" % (r.rc, r.sig), "library aborted a legal concurrent program: "
                                + r.err[-300:], r.brief()))
            return res
        tdir = os.path.join(wd, "trace")
        sdirs = obs.find_streams(tdir)
        logs = {}
        for lg in os.listdir(os.path.join(wd, "log")):
            recs = rt.parse_log(os.path.join(wd, "log", lg))
            logs[[x.tid for x in recs if x.kind == "init"][0]] = recs
        if len(sdirs) != len(logs):
            res["viol"].append(("stream-count", "%d streams for %d threads" % (len(sdirs), len(logs)), {})); return res
        mtimes = []
        for sd in sdirs:
            tid = int(os.path.basename(sd).split(".")[1])
            recs = logs.get(tid)
            if recs is None:
                res["viol"].append(("foreign-stream", "stream %s belongs to no thread" % sd, {})); continue
            try:
                evs = obs.decode_file(os.path.join(sd, "stream.obs"))
            except obs.DecodeError as ex:
                res["viol"].append(("not-tiled", "thread %d: %s" % (tid, ex), {})); continue
            msg = rt.compare_stream(evs, recs)
            if msg:
                res["viol"].append(("stream-differs", "thread %d: %s" % (tid, msg), {})); continue
            res["events"] += len(evs)
            try:
                with open(os.path.join(sd, "stream.json"), "rb") as mf:
                    meta = json.loads(mf.read().decode("utf-8"))
                if not isinstance(meta, dict):
                    raise ValueError("top level is not an object")
            except (OSError, ValueError) as ex:
                res["viol"].append(("metadata-unreadable", "thread %d: stream.json cannot be read back: %s" % (tid, ex), {}))
                continue
            o = meta.get("ovni", {})
            exp = case["expect"][tid]
            got_cpus = [(c["index"], c["phyid"]) for c in o.get("loom_cpus", [])]
            if o.get("tid") != tid or o.get("pid") != 900 or o.get("finished") != 1:
                res["viol"].append(("metadata-identity", "thread %d metadata has tid=%s pid=%s finished=%s"
                                    % (tid, o.get("tid"), o.get("pid"), o.get("finished")), {}))
            if got_cpus != exp["cpus"]:
                res["viol"].append(("metadata-foreign-cpus", "thread %d metadata lists CPUs %s, it added %s"
                                    % (tid, got_cpus, exp["cpus"]), {}))
            got_attrs = {}
            for tk, tv_ in meta.get("verif", {}).items():
                for kk, vv in tv_.items():
                    got_attrs["verif.%s.%s" % (tk, kk)] = vv
            if got_attrs != exp["attrs"]:
                res["viol"].append(("metadata-foreign-attrs", "thread %d metadata attributes %s, it set %s"
                                    % (tid, got_attrs, exp["attrs"]), {}))
            got_marks = sorted(int(x) for x in o.get("mark", {}) if str(x).isdigit())
            if got_marks != exp["marks"]:
                res["viol"].append(("metadata-foreign-marks", "thread %d metadata defines mark types %s, it defined %s"
                                    % (tid, got_marks, exp["marks"]), {}))
            req = set(o.get("require", {}))
            if req != set(exp["reqs"]):
                res["viol"].append(("metadata-foreign-require", "thread %d requires %s, it asked for %s"
                                    % (tid, sorted(req), sorted(exp["reqs"])), {}))
            mtimes.append((os.stat(os.path.join(sd, "stream.json")).st_mtime_ns, tid))
        res["order"] = tuple(t for _, t in sorted(mtimes))
        return res
    finally:
        shutil.rmtree(wd, ignore_errors=True)


def run_race(i):
    chk, race = _CTX["chk"], _CTX["race"]
    rng = chk.rng(i, "race")
    n = rng.choice([2, 3, 4, 8, 16])
    wd = os.path.join(chk.scratch, "race%d" % i)
    res = {"i": i, "n": n, "viol": [], "inconclusive": None, "winner": None}
    try:
        os.makedirs(wd)
        env = dict(TSAN_ENV)
        env["OVNI_TRACEDIR"] = os.path.join(wd, "trace")
        env["OVNI_VERIF_DELAY"] = str(rng.randint(1, 10 ** 6))
        mixed = i % 3 == 2
        if mixed:
            env["RACEDRV_MIXED"] = "1"
        if (i // 3) % 2 == 1:
            env["RACEDRV_ARGS"] = "1"           # the racers pass different pid arguments
        if i % 2:
            env["OVNI_TMPDIR"] = os.path.join(wd, "tmp")
        res["mixed"] = mixed
        r = core.run_retry([race, str(n)], env=env, cwd=wd, timeout=120)
        if r.timeout:
            res["inconclusive"] = "race driver timeout"; return res
        for key, block in tsan_reports(r.err):
            if key.startswith("harness:"):
                # a signal-handler / abort artefact of the driver, not of the library
                continue
            res["viol"].append(("tsan:" + key, "ThreadSanitizer report inside libovni (init/fini race)", {"report": block[:3000]}))
        m1 = re.search(r"INIT winners=(\d+) refused=(\d+) winner=(-?\d+)", r.out)
        m2 = re.search(r"FINI winners=(\d+) refused=(\d+) winner=(-?\d+) reinit=(\d+)", r.out)
        if not m1:
            res["inconclusive"] = "race driver printed nothing: " + r.err[-200:]; return res
        w, rf = int(m1.group(1)), int(m1.group(2))
        if w <= 1 and w + rf < n:
            # some racer had not reported when the driver's watchdog expired
            # (loaded machine): nothing can be concluded from this run
            res["inconclusive"] = "only %d of %d racers reported" % (w + rf, n); return res
        if w != 1 or rf != n - 1:
            res["viol"].append(("proc-init-not-exactly-once", "%d threads raced ovni_proc_init: %d returned, %d refused"
                                % (n, w, rf), {"stdout": r.out}))
        # one line of diagnostic per refusal, whatever its wording (ThreadSanitizer output aside)
        ndiag = len([l for l in r.err.split("\n") if l.strip() and not l.startswith(("  ", "=", "WARNING: ThreadSanitizer",
                                                                                      "SUMMARY", "ThreadSanitizer"))])
        if rf and ndiag < rf:
            res["viol"].append(("refusal-without-diagnostic", "%d refusals, %d diagnostics" % (rf, ndiag), {}))
        if m2:
            w2, rf2, reinit = int(m2.group(1)), int(m2.group(2)), int(m2.group(4))
            if reinit:
                res["viol"].append(("proc-init-accepted-during-or-after-fini",
                                    "%d of the ovni_proc_init calls racing ovni_proc_fini returned instead of being refused"
                                    % reinit, {"stdout": r.out}))
            if w2 <= 1 and w2 + rf2 + reinit < n:
                res["inconclusive"] = "only %d of %d fini racers reported" % (w2 + rf2 + reinit, n); return res
            if w2 != 1 or rf2 + reinit != n - 1:
                res["viol"].append(("proc-fini-not-exactly-once", "%d threads raced ovni_proc_fini: %d returned, %d refused"
                                    % (n, w2, rf2), {"stdout": r.out}))
            res["winner"] = (int(m1.group(3)), int(m2.group(3)))
        elif w == 1:
            res["inconclusive"] = "fini phase missing"
        return res
    finally:
        shutil.rmtree(wd, ignore_errors=True)


def run_churn(i):
    """Thread churn (drivers/churndrv.c): rounds of one thread that lives and
    is freed followed by K threads initialising together; half of the runs on
    the ThreadSanitizer build, half on the plain build (schedules closer to
    production).  Every stream must hold exactly its own thread's N tagged
    events."""
    chk = _CTX["chk"]
    rng = chk.rng(i, "churn")
    tsan = i % 2 == 0
    exe = _CTX["churn_tsan"] if tsan else _CTX["churn_plain"]
    rounds, k, nev = (rng.randint(20, 40), rng.randint(2, 6), rng.choice([3, 40, 400])) if tsan else \
                     (rng.randint(100, 200), rng.randint(2, 8), rng.choice([3, 40, 400]))
    wd = os.path.join(chk.scratch, "churn%d" % i)
    res = {"i": i, "viol": [], "inconclusive": None, "starts": 0, "streams": 0, "tsan": tsan}
    try:
        os.makedirs(wd)
        env = dict(TSAN_ENV) if tsan else {}
        env["OVNI_TRACEDIR"] = os.path.join(wd, "trace")
        env["OVNI_VERIF_DELAY"] = str(rng.randint(1, 10 ** 6))
        # build x overlap x OVNI_TMPDIR: every combination equally often
        if (i // 8) % 2 == 1:
            env["OVNI_TMPDIR"] = os.path.join(wd, "tmp")
        # the lone thread is freed while the group initialises, or (pipeline) every
        # group is freed while the next one initialises
        ovl = [[], ["overlap"], ["pipeline"], ["pipeline"]][(i // 2) % 4]
        if ovl == ["pipeline"]:
            rounds = min(rounds, 150)
        argv = [exe, str(rounds), str(k), str(nev)] + ovl
        if i % 3 == 0:
            # a low limit on open descriptors: what a finished thread held must have been given back
            argv = ["sh", "-c", 'ulimit -n 96 && exec "$@"', "sh"] + argv
        r = core.run_retry(argv, env=env, cwd=wd, timeout=300)
        if r.timeout:
            res["inconclusive"] = "churn driver timeout"; return res
        if tsan:
            for key, block in tsan_reports(r.err):
                if key.startswith("harness:"):
                    continue
                res["viol"].append(("tsan:" + key, "ThreadSanitizer report inside libovni (thread churn)", {"report": block[:3000]}))
        if r.rc != 0 or "CHURN-DONE" not in r.out:
            res["viol"].append(("driver-died:churn", "the library stopped a program whose threads come and go: rc=%s sig=%s %s"
                                % (r.rc, r.sig, r.err.strip().split("\n")[-1][:200]), r.brief()))
            return res
        res["starts"] = rounds
        res["streams"], v = rt.churn_check(env["OVNI_TRACEDIR"], nev)
        if v:
            res["viol"].append((v[0], v[1], {"rounds": rounds, "k": k, "n": nev}))
        nthreads = rounds * (k if ovl == ["pipeline"] else k + 1)
        if res["streams"] != nthreads and not res["viol"]:
            res["viol"].append(("churn:stream-count", "%d streams for %d threads" % (res["streams"], nthreads), {}))
        return res
    finally:
        shutil.rmtree(wd, ignore_errors=True)


def run_reinit(i):
    """A thread that calls ovni_thread_init again while it is being traced (the call is ignored with a
    warning) must not affect the threads that start afterwards: they initialise, emit, flush and are freed
    as usual.  Tiny programs (a few dozen operations) with a 30 s watchdog; a run that exceeds it is run
    once more, and only two timeouts in a row count as a hang."""
    chk, drv = _CTX["chk"], _CTX["drv"]
    rng = chk.rng(i, "reinit")
    nother = rng.randint(1, 4)
    reps = rng.randint(1, 3)
    first = ["init 7000", "cpu 0 0"] + ["init 7000"] * reps + ["barrier"] + \
            ["ev OB. now %04x" % k for k in range(rng.randint(1, 20))] + ["flush", "free", "end"]
    out = ["proc 1 node 901", "thread"] + first
    for t in range(nother):
        out += ["thread", "barrier", "init %d" % (7001 + t)] + (["init %d" % (7001 + t)] if rng.random() < 0.3 else []) + \
               ["ev OB. now %04x" % k for k in range(rng.randint(1, 20))] + ["flush", "free", "end"]
    out.append("fini")
    script = "\n".join(out) + "\n"
    res = {"i": i, "viol": [], "inconclusive": None, "threads": 1 + nother}
    wd = os.path.join(chk.scratch, "reinit%d" % i)
    try:
        for attempt in range(2):
            shutil.rmtree(wd, ignore_errors=True)
            os.makedirs(wd)
            r = rt.run_script(drv, script, wd, env=dict(TSAN_ENV), timeout=30)
            if not r.timeout:
                break
        if r.timeout:
            res["viol"].append(("hang:thread-init-after-repeated-init", "a program of %d threads, the first of which calls "
                                "ovni_thread_init %d times, did not finish within 30 s (twice)" % (1 + nother, 1 + reps),
                                {"script_head": script[:800]}))
            return res
        if r.rc in (97, 98):
            raise core.HarnessError("rtdrv: " + r.err[-300:])
        for key, block in tsan_reports(r.err):
            if key.startswith("harness:"):
                raise core.HarnessError("ThreadSanitizer report in the driver itself:\n" + block[:1500])
            res["viol"].append(("tsan:" + key, "ThreadSanitizer report with a repeated ovni_thread_init", {"report": block[:1500]}))
        if r.rc != 0 or "RTDRV-DONE" not in r.out:
            res["viol"].append(("driver-died:reinit:rc=%s:sig=%s" % (r.rc, r.sig), "the library stopped a program in which a "
                                "thread calls ovni_thread_init twice", r.brief()))
            return res
        n = len(obs.find_streams(os.path.join(wd, "trace")))
        if n != 1 + nother:
            res["viol"].append(("stream-count:reinit", "%d streams for %d threads" % (n, 1 + nother), {}))
        return res
    finally:
        shutil.rmtree(wd, ignore_errors=True)


def main(argv):
    chk = core.Check("C11", "exploration", argv)
    tsan = chk.build("tsan", ["ovni"])
    drv = rt.build_rtdrv(chk, tsan)
    race = os.path.join(chk.scratch, "racedrv")
    chk.cc(race, [os.path.join(core.VERIF, "drivers", "racedrv.c")], tsan,
           extra=["-L", tsan.libdir, "-lovni", "-lpthread", "-Wl,-rpath," + tsan.libdir])
    plain = chk.build("plain", ["ovni"])
    churn_t = os.path.join(chk.scratch, "churndrv-tsan")
    chk.cc(churn_t, [os.path.join(core.VERIF, "drivers", "churndrv.c")], tsan,
           extra=["-L", tsan.libdir, "-lovni", "-lpthread", "-Wl,-rpath," + tsan.libdir])
    churn_p = os.path.join(chk.scratch, "churndrv-plain")
    chk.cc(churn_p, [os.path.join(core.VERIF, "drivers", "churndrv.c")], plain,
           extra=["-L", plain.libdir, "-lovni", "-lpthread", "-Wl,-rpath," + plain.libdir])
    _CTX.update(chk=chk, drv=drv, race=race, churn_tsan=churn_t, churn_plain=churn_p)
    quick = chk.tier == "quick"
    mt_cases = list(range(40 if quick else 1200))
    race_cases = list(range(150 if quick else 4000))
    if chk.replay:
        rp = json.load(open(chk.replay))["replay"]
        mt_cases = [rp["case"]] if rp.get("kind") == "mt" else []
        race_cases = [rp["case"]] if rp.get("kind") == "race" else []
    nmt = ev = 0
    orders = set()
    threads = 0
    for r in core.pmap(run_mt, mt_cases, jobs=max(2, core.NCPU // 4)):
        if r["inconclusive"]:
            chk.note_inconclusive(r["inconclusive"]); continue
        nmt += 1; ev += r["events"]; threads += r["nth"]
        if r["order"]:
            orders.add(r["order"])
        for key, what, o in r["viol"]:
            chk.report(key, what, dict(o, case=r["i"], kind="mt"))
    nrace = 0
    winners = set()
    for r in core.pmap(run_race, race_cases, jobs=max(2, core.NCPU // 2)):
        if r["inconclusive"]:
            chk.note_inconclusive(r["inconclusive"]); continue
        nrace += 1
        if r["winner"]:
            winners.add((r["n"],) + r["winner"])
        for key, what, o in r["viol"]:
            chk.report(key, what, dict(o, case=r["i"], kind="race"))
    nchurn = starts = cstreams = 0
    churn_cases = [] if chk.replay else list(range(32 if quick else 480))
    for r in core.pmap(run_churn, churn_cases, jobs=max(2, core.NCPU // 4)):
        if r["inconclusive"]:
            chk.note_inconclusive(r["inconclusive"]); continue
        nchurn += 1; starts += r["starts"]; cstreams += r["streams"]
        for key, what, o in r["viol"]:
            chk.report(key, what, dict(o, case=r["i"], kind="churn"))
    nre = 0
    for r in core.pmap(run_reinit, [] if chk.replay else list(range(12 if quick else 200)), jobs=max(2, core.NCPU // 4)):
        nre += 1
        for key, what, o in r["viol"]:
            chk.report(key, what, dict(o, case=r["i"], kind="reinit"))
    c0 = gen_mt(chk, 0)
    cov = {"evaluations": nmt + nrace + nchurn + nre, "reinit_runs": nre, "distinct_nontrivial": len(orders) + len(winners),
           "rule": "libovni built with gcc -fsanitize=thread. MT runs: 2-16 threads released from a barrier, each init / "
                   "add-cpu / require / attributes / 50-3000 emits incl. jumbos, marks, explicit and automatic flushes, "
                   "attr_flush / free, with OVNI_VERIF_DELAY perturbation and OVNI_TMPDIR on/off; per-thread stream and "
                   "metadata compared with that thread's own log. Race runs: 2-16 threads race ovni_proc_init, then "
                   "ovni_proc_fini; losers are parked in a SIGABRT handler and counted. Reinit runs: a thread calls ovni_thread_init again while traced, others start afterwards (30 s watchdog, two timeouts in a row = hang). Churn runs: rounds of one thread that "
                   "lives and is freed followed by (or at the same time as) 2-8 threads initialising together (TSan and plain "
                   "builds, OVNI_TMPDIR in half of them), every "
                   "stream checked against its thread's tagged events. distinct_nontrivial = distinct "
                   "thread-completion orders (metadata store order) + distinct (N, init winner, fini winner) triples",
           "samples": [{"threads": c0["nth"], "first_lines": c0["script"].split("\n")[:10]}],
           "mt_runs": nmt, "churn_runs": nchurn, "churn_group_starts": starts, "churn_streams_checked": cstreams,
           "threads_run": threads, "events_compared": ev, "race_runs": nrace,
           "distinct_completion_orders": len(orders), "distinct_winner_triples": len(winners),
           "sanitizer": "thread (gcc), reports collected with halt_on_error=0 and de-duplicated by library entry points"}
    return chk.finish(cov, assumptions=[
        "ThreadSanitizer sees the schedules the kernel produced (plus H2 delays); its happens-before analysis generalises "
        "over interleavings of the synchronisation it observed, not over all interleavings",
        "reports whose stacks have no frame under /repo/src are driver artefacts (harness failure), not verdicts"])
