"""C12 - structurally invalid or incomplete traces are rejected.  Valid
synthetic base traces (confirmed accepted) are corrupted one thing at a time,
each class enumerated exhaustively on the base; ovniemu must fail and must not
print 'emulation finished ok'."""

import copy
import json
import os
import shutil
import struct

import core
import emu
import histgen
import obs
import refemu
import tracegen

SIZE_CHECKED = {
    # mcv -> wrong payload sizes to try (legal sizes are 0, 2..16)
    "OHx": [0, 2], "OAs": [0, 2, 8], "OAr": [0, 4, 12], "OM=": [0, 8, 16], "OM[": [0, 8, 16], "OM]": [0, 8],
    "VTx": [0, 4], "VTe": [0, 4], "VTp": [0, 4], "VTr": [0, 4], "VTc": [0, 4], "VTC": [0, 4],
    "6Tc": [0, 4, 12], "6Tx": [0, 2], "6Te": [0, 2], "6Tp": [0, 2], "6Tr": [0, 2],
}


def gen_base(chk, i):
    rng = chk.rng(i, "base")
    shape = rng.choice([[(1, [1])], [(2, [2])], [(2, [2, 1])], [(2, [2, 2])], [(3, [1, 1, 1, 1])]])
    looms = []
    tid, pid = 200, 20
    for li, (ncpus, procs) in enumerate(shape):
        ps = []
        for nt in procs:
            ps.append({"pid": pid, "appid": 1, "threads": list(range(tid, tid + nt)),
                       "rank": pid - 20, "nranks": 8}); tid += nt; pid += 1
        looms.append({"name": "n%d" % li, "cpus": [(k, k) for k in range(ncpus)], "procs": ps})
    desc = {"looms": looms}
    enabled = rng.choice(["V", "V6", "VM", "V6DMTPK"])
    marks = {3: "single", 4: "stack"}
    g = histgen.Gen(rng, desc, enabled, marks)
    # make sure there is a jumbo type-create and some task traffic early
    k0 = g.threads()[0].key
    g.emit(k0, "OHx", obs.i32(0, k0[2], 0))
    g.emit(k0, "VYc", obs.u32(1) + b"base type\0", True)
    # two type-create jumbos back to back: clearing the jumbo flag of the
    # second one puts a non-jumbo type event right after a jumbo event
    g.emit(k0, "VYc", obs.u32(900) + b"second\0", True)
    g.emit(k0, "VTc", obs.u32(1, 1))
    g.emit(k0, "VTx", obs.u32(1, 0))
    g.emit(k0, "OM=", obs.i64(5) + obs.i32(3))
    g.emit(k0, "OAs", obs.i32(-1))
    g.next_task, g.next_type = 2, 2
    g.run(rng.choice([25, 60]))
    hist = g.finish(close_regions=False)
    # what the runtime writes when a thread is freed after its OHe: the markers of
    # the last flush.  A cut inside them leaves a thread that is already dead.
    clock = max(h[0] for h in hist)
    for t in g.threads():
        if rng.random() < 0.6 and any(h[1] == t.key and h[2] == "OHe" for h in hist):
            if t.ch[("O", "flush")]:
                clock += 1
                hist.append((clock, t.key, "OF]", b"", False))      # a flush was left open
            hist.append((clock + 1, t.key, "OF[", b"", False))
            hist.append((clock + 2, t.key, "OF]", b"", False))
            clock += 2
    # the streams of a trace may come from different builds of the library (the
    # emulator only warns): in half of the bases the commit and patch level differ
    ptm = {}
    if rng.random() < 0.5:
        for n, t in enumerate(g.threads()):
            ptm[t.key] = {"ovni": {"lib": {"version": rng.choice(["1.11.0", "1.11.0", "1.11.3"]),
                                            "commit": rng.choice(["verif", "verif", "0a1b2c3", "0a1b2c3-dirty"])}}}
    return {"desc": desc, "enabled": enabled, "marks": marks, "hist": hist, "per_thread_meta": ptm}


def write_base(base, d):
    tracegen.write_trace(d, base["desc"], base["hist"], require=histgen.require_of(base["enabled"]),
                         extra_meta=histgen.mark_meta(base["marks"]), per_thread_meta=base.get("per_thread_meta"))


def stream_events(base, key):
    return [(c, m, p, j) for (c, k, m, p, j) in base["hist"] if k == key]


def mutations(base):
    """Yields (class, description, apply(dir)) for every single corruption
    of the base."""
    keys = tracegen.all_keys(base["desc"])
    muts = []

    def sdir(d, key):
        return obs.stream_dir(d, key[0], key[1], key[2])

    for key in keys:
        evs = stream_events(base, key)
        raw = obs.encode_stream(evs)
        # 1. header bytes
        for b in range(8):
            for newv in sorted(set([raw[b] ^ 0xff, (raw[b] + 1) & 0xff, 0x00, 0x20, raw[b] ^ 0x20]) - {raw[b]}):
                def ap(d, key=key, b=b, newv=newv, raw=raw):
                    r = bytearray(raw); r[b] = newv
                    open(os.path.join(sdir(d, key), "stream.obs"), "wb").write(r)
                muts.append(("header", "%s byte %d -> 0x%02x" % (key[2], b, newv), ap))
        # 2. truncation at every byte offset (a cut at an event boundary after the
        # thread's OHe leaves a complete, valid stream: not a corruption)
        ends = [len(obs.encode_stream(evs[:n])) for n in range(len(evs) + 1)]
        ohe = [n for n, e in enumerate(evs) if e[1] == "OHe"]
        last_end = ohe[-1] if ohe else len(evs)
        valid_cuts = set(ends[last_end + 1:])
        for k in range(len(raw)):
            if k in valid_cuts:
                continue
            def ap(d, key=key, k=k, raw=raw):
                open(os.path.join(sdir(d, key), "stream.obs"), "wb").write(raw[:k])
            muts.append(("truncate", "%s at %d of %d" % (key[2], k, len(raw)), ap))
        # 3. swap adjacent events with different clocks
        for k in range(len(evs) - 1):
            if evs[k][0] != evs[k + 1][0]:
                def ap(d, key=key, k=k, evs=evs):
                    e = list(evs); e[k], e[k + 1] = e[k + 1], e[k]
                    open(os.path.join(sdir(d, key), "stream.obs"), "wb").write(obs.encode_stream(e))
                muts.append(("swap", "%s events %d,%d" % (key[2], k, k + 1), ap))
        # 5/6/7. per-event substitutions
        used_models = set(base["enabled"]) | {"O"}
        absent = [m for m in "V6DMTPK" if m not in used_models]
        for k, (c, m, p, j) in enumerate(evs):
            subs = []
            if absent:
                # an event of a model the trace did not require
                probe = {"V": "VS[", "6": "6W[", "D": "DR[", "M": "MS[", "T": "TLi", "P": "PBb", "K": "KCO"}[absent[k % len(absent)]]
                subs.append(("undeclared-model", probe, b"", False))
            # unknown code of a required model (value byte no table holds)
            subs.append(("unknown-event", m[0] + m[1] + "~", p, j) if m[:2] not in ("OB", "OU") else
                        ("unknown-event", "O~~", p, j))
            subs.append(("unknown-event", m[0] + "~" + m[2], p, j))
            # a declared code with the top bit of one byte set (no table holds bytes >= 0x80)
            # (the value byte of the base model's burst and unordered-region categories is ignored by
            # design - see C18's statement - so it is left alone there)
            hb = k % 3 if m[:2] not in ("OB", "OU") else k % 2
            subs.append(("unknown-event", m[:hb] + chr(ord(m[hb]) | 0x80) + m[hb + 1:], p, j))
            for ws in SIZE_CHECKED.get(m, []):
                # the event's own payload cut (or padded) to the wrong size: what is left of it stays
                # meaningful (task id, CPU index ...), so that nothing but the size is wrong
                subs.append(("payload-size", m, (p + bytes(16))[:ws], False))
            if m[1:2] == "T" and m in SIZE_CHECKED and len(p) >= 3 and not j:
                for ws in sorted(set([len(p) - 1, max(2, len(p) - 3)]) - set(SIZE_CHECKED[m]) - {len(p)}):
                    subs.append(("payload-size", m, p[:ws], False))
            if j:
                subs.append(("jumbo-flag-cleared", m, p[:16] if len(p) >= 2 else b"", False))
            for (cls, nm, npl, nj) in subs:
                def ap(d, key=key, k=k, evs=evs, nm=nm, npl=npl, nj=nj, c=c):
                    e = list(evs); e[k] = (c, nm, npl, nj)
                    open(os.path.join(sdir(d, key), "stream.obs"), "wb").write(obs.encode_stream(e))
                muts.append((cls, "%s event %d %s -> %s/%d bytes" % (key[2], k, m, nm, len(npl)), ap))
    # 4. metadata
    first_of_loom = {}
    for key in keys:
        first_of_loom.setdefault(key[0], key)
    proc_threads = {}
    for key in keys:
        proc_threads.setdefault((key[0], key[1]), []).append(key)

    def meta_mut(key, fn, cls, what, also=()):
        def ap(d, key=key, fn=fn, also=also):
            for kk in (key,) + tuple(also):
                pth = os.path.join(sdir(d, kk), "stream.json")
                m = json.load(open(pth))
                r = fn(m)
                with open(pth, "w") as f:
                    if isinstance(r, str):
                        f.write(r)
                    else:
                        json.dump(m, f)
        muts.append((cls, "%s: %s" % (key[2], what), ap))

    def delkey(path):
        def fn(m):
            o = m
            for pp in path[:-1]:
                o = o[pp]
            del o[path[-1]]
        return fn

    def setkey(path, val):
        def fn(m):
            o = m
            for pp in path[:-1]:
                o = o[pp]
            o[path[-1]] = val
        return fn

    for key in keys:
        mates = [k for k in proc_threads[(key[0], key[1])] if k != key]
        meta_mut(key, delkey(["version"]), "meta-removed", "version removed")
        for v in (2, 4, 0, "3x"):
            meta_mut(key, setkey(["version"], v), "meta-altered", "version=%r" % (v,))
        meta_mut(key, delkey(["ovni", "part"]), "meta-removed", "ovni.part removed")
        meta_mut(key, delkey(["ovni", "tid"]), "meta-removed", "ovni.tid removed")
        meta_mut(key, setkey(["ovni", "tid"], 0), "meta-altered", "ovni.tid=0")
        meta_mut(key, delkey(["ovni", "pid"]), "meta-removed", "ovni.pid removed")
        meta_mut(key, setkey(["ovni", "pid"], 0), "meta-altered", "ovni.pid=0")
        meta_mut(key, delkey(["ovni", "loom"]), "meta-removed", "ovni.loom removed")
        meta_mut(key, delkey(["ovni", "finished"]), "meta-removed", "ovni.finished removed")
        meta_mut(key, setkey(["ovni", "finished"], 0), "meta-altered", "ovni.finished=0")
        meta_mut(key, delkey(["ovni", "lib"]), "meta-removed", "ovni.lib removed")
        meta_mut(key, delkey(["ovni", "lib", "version"]), "meta-removed", "ovni.lib.version removed")
        meta_mut(key, delkey(["ovni", "lib", "commit"]), "meta-removed", "ovni.lib.commit removed")
        # app_id removed from every thread of the process (=> no carrier left)
        meta_mut(key, delkey(["ovni", "app_id"]), "meta-removed", "ovni.app_id removed from the whole process", also=mates)
        # rank information (every thread of the base carries rank and nranks)
        meta_mut(key, delkey(["ovni", "nranks"]), "meta-removed", "ovni.nranks removed (rank present)")
        meta_mut(key, setkey(["ovni", "nranks"], 0), "meta-altered", "ovni.nranks=0")
        if mates:
            meta_mut(key, setkey(["ovni", "nranks"], 9), "meta-altered", "ovni.nranks differs from the sibling threads'")
        # rank information removed from every thread of one process while its sibling processes keep theirs
        def strip_rank(m):
            m["ovni"].pop("rank", None); m["ovni"].pop("nranks", None)
        if any(k[0] == key[0] and k[1] != key[1] for k in keys) and key == proc_threads[(key[0], key[1])][0]:
            meta_mut(key, strip_rank, "meta-removed", "ovni.rank and nranks removed from the whole process %d (other processes "
                     "of the loom keep theirs)" % key[1], also=mates)
        meta_mut(key, setkey(["ovni", "rank"], 8), "meta-altered", "ovni.rank >= nranks")
        meta_mut(key, setkey(["ovni", "rank"], -1), "meta-altered", "ovni.rank negative")
        meta_mut(key, lambda m: "{ \"version\": 3, \"ovni\": ", "meta-unparsable", "JSON syntax broken")
        meta_mut(key, lambda m: "[1, 2, 3]", "meta-unparsable", "top level is an array")
        meta_mut(key, lambda m: "", "meta-unparsable", "empty file")
        # require: whole dict removed / a used non-base model removed / incompatible version
        used = sorted(set(m[0] for (c, m, p, j) in stream_events(base, key)) - {"O"})
        # A model is enabled when SOME stream requires it, so a requirement
        # only disappears when it is removed from every stream.
        others = tuple(k for k in keys if k != key)
        if used:
            meta_mut(key, delkey(["ovni", "require"]), "meta-removed",
                     "ovni.require removed from every stream (this one uses %s)" % used, also=others)
        for mc in used:
            name, ver = histgen.REQUIRE[mc]
            meta_mut(key, delkey(["ovni", "require", name]), "meta-removed",
                     "ovni.require.%s removed from every stream" % name, also=others)
            maj, mnr, pat = [int(x) for x in ver.split(".")]
            meta_mut(key, setkey(["ovni", "require", name], "%d.%d.%d" % (maj + 1, 0, 0)), "meta-version-mismatch",
                     "require %s major+1" % name)
            meta_mut(key, setkey(["ovni", "require", name], "%d.%d.%d" % (maj, mnr + 1, 0)), "meta-version-mismatch",
                     "require %s minor+1" % name)
            meta_mut(key, setkey(["ovni", "require", name], "banana"), "meta-version-mismatch", "require %s unparsable" % name)
        meta_mut(key, setkey(["ovni", "require", "ovni"], "2.0.0"), "meta-version-mismatch", "require ovni 2.0.0")
        meta_mut(key, setkey(["ovni", "require", "ovni"], "1.99.0"), "meta-version-mismatch", "require ovni 1.99.0")
    for loom, key in first_of_loom.items():
        meta_mut(key, delkey(["ovni", "loom_cpus"]), "meta-removed", "ovni.loom_cpus removed from its only carrier")
    return muts


_CTX = {}


def run_base(bi):
    chk, build = _CTX["chk"], _CTX["plain"]
    base = gen_base(chk, bi)
    wd = os.path.join(chk.scratch, "b%d" % bi)
    res = {"bi": bi, "viol": [], "n": 0, "classes": {}, "inconclusive": 0, "base_ok": False}
    try:
        write_base(base, wd)
        r = emu.emu(build, wd)
        if not emu.accepted(r):
            res["viol"].append(("base-rejected", "the uncorrupted base trace is rejected: " + emu.last_error(r), r.brief()))
            return res
        res["base_ok"] = True
        muts = mutations(base)
        limit = _CTX["limit"]
        if limit and len(muts) > limit:
            # keep every class fully represented: stride inside each class
            bycls = {}
            for m in muts:
                bycls.setdefault(m[0], []).append(m)
            muts = []
            share = max(1, limit // len(bycls))
            for cls, lst in bycls.items():
                if len(lst) <= 60:
                    muts.extend(lst)          # small classes are never sampled
                    continue
                step = max(1, len(lst) // share)
                muts.extend(lst[::step])
        md = wd + "-m"
        for mi, (cls, what, ap) in enumerate(muts):
            shutil.rmtree(md, ignore_errors=True)
            write_base(base, md)
            ap(md)
            # the emulator's options rotate: default, lint, every model enabled, both.  With -a a model
            # needs no requirement, so the two corruptions that only take a requirement away are run
            # without it
            opts = [[], ["-l"], ["-a"], ["-a", "-l"]][(mi + bi) % 4]
            if "-a" in opts and (cls == "undeclared-model" or (cls == "meta-removed" and "ovni.require." in what)):
                opts = [o for o in opts if o != "-a"]
            what = what + (" [ovniemu %s]" % " ".join(opts) if opts else "")
            r = emu.emu(build, md, opts)
            if r.timeout:
                res["inconclusive"] += 1
                continue
            res["n"] += 1
            res["classes"][cls] = res["classes"].get(cls, 0) + 1
            if emu.accepted(r) or r.rc == 0 or "emulation finished ok" in r.err:
                if cls == "jumbo-flag-cleared":
                    cls = "non-jumbo-type-create-after-a-jumbo-event"
                res["viol"].append(("accepted:" + cls, "ovniemu accepted a corrupted trace (%s)" % what,
                                    {"base": bi, "mutation": what, "emu": r.brief()}))
            elif r.sig:
                res["viol"].append(("crash:%s:sig%d" % (cls, r.sig), "ovniemu died with signal %d on (%s)" % (r.sig, what),
                                    {"base": bi, "mutation": what, "emu": r.brief()}))
        shutil.rmtree(md, ignore_errors=True)
        return res
    finally:
        shutil.rmtree(wd, ignore_errors=True)


def main(argv):
    chk = core.Check("C12", "exploration", argv)
    plain = chk.build("plain", ["ovniemu"])
    quick = chk.tier == "quick"
    _CTX.update(chk=chk, plain=plain, limit=(250 if quick else None))
    nb = 16 if quick else 64
    if chk.replay:
        bases = [json.load(open(chk.replay))["replay"]["base"]]
    else:
        bases = list(range(nb))
    n = 0
    classes = {}
    for r in core.pmap(run_base, bases):
        n += r["n"]
        chk.inconclusive += r["inconclusive"]
        for c, k in r["classes"].items():
            classes[c] = classes.get(c, 0) + k
        for key, what, o in r["viol"]:
            chk.report(key, what, o)
    cov = {"evaluations": n, "distinct_nontrivial": len(classes),
           "rule": "valid multi-model base traces (accepted by the emulator first), each corrupted once: header bytes, "
                   "truncation at every byte offset, swap of adjacent events with different clocks, removal/alteration of "
                   "each metadata key, substitution of undeclared-model / unknown MCVs, wrong payload sizes of "
                   "size-checked events, jumbo flag cleared. A case = one corrupted trace run through ovniemu. "
                   "distinct_nontrivial = corruption classes exercised",
           "samples": [{"class": c, "runs": k} for c, k in sorted(classes.items())],
           "bases": len(bases), "per_class": classes,
           "exhaustive": not quick,
           "exhaustive_scope": "every single corruption of each class on each base (quick tier: strided sample per class)"}
    return chk.finish(cov, assumptions=[
        "events whose payload size no model checks (e.g. OHe, OHp with a stray payload) are outside the property",
        "ovni.require.ovni is not mandatory (the base model is always enabled)"])
