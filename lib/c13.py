"""C13 - Paraver output well-formed and self-consistent.  Every accepted
trace of the C06 generator family (all models, marks, tasks, ranks, several
looms) plus breakdown runs (-b) is parsed with the independent reader and
checked against the well-formedness rules of the property."""

import json
import os
import shutil

import core
import emu
import histgen
import obs
import pv
import refemu
import tracegen
import c06

# emulator-defined *state* types whose non-zero values need a label
STATE_TYPES = {4, 6, 13, 20, 30, 37, 50, 25, 16, 40, 11, 36, 17, 41}


def check_outputs(wd, model, hist, names):
    """Returns list of (key, message)."""
    probs = []
    clocks = [h[0] for h in hist]
    last_time = max(clocks) - min(clocks)
    for name in names:
        p = os.path.join(wd, name + ".prv")
        if not os.path.exists(p):
            probs.append(("missing-file:" + name, "%s.prv not written" % name))
            continue
        try:
            prv = pv.Prv(p)
            pcf = pv.Pcf(os.path.join(wd, name + ".pcf"))
            row = pv.Row(os.path.join(wd, name + ".row"))
        except (pv.PrvError, OSError) as ex:
            probs.append(("malformed:" + name, str(ex)))
            continue
        last = 0
        for (r, t, ty, v) in prv.lines:
            if t < last:
                probs.append(("time-decreases:" + name, "%s.prv time %d after %d" % (name, t, last))); break
            last = t
        for (r, t, ty, v) in prv.lines:
            if not (1 <= r <= prv.nrows):
                probs.append(("row-out-of-range:" + name, "%s.prv row %d with %d rows declared" % (name, r, prv.nrows))); break
        if prv.duration != last_time:
            probs.append(("header-duration:" + name, "%s.prv header duration %d, last event time %d"
                          % (name, prv.duration, last_time)))
        if prv.lines and prv.duration < max(t for (_, t, _, _) in prv.lines):
            probs.append(("header-duration-short:" + name, "%s.prv header duration below the largest line time" % name))
        undeclared = sorted(set(ty for (_, _, ty, _) in prv.lines) - set(pcf.types))
        if undeclared:
            probs.append(("undeclared-type:%s:%s" % (name, ",".join(str(u) for u in undeclared)),
                          "%s.prv uses event types %s that %s.pcf does not declare" % (name, undeclared, name)))
        for (r, t, ty, v) in prv.lines:
            if ty in STATE_TYPES and v != 0 and ty in pcf.types and pcf.label(ty, v) is None:
                probs.append(("unlabelled-value:%s:type%d" % (name, ty),
                              "%s.prv type %d value %d has no label in the .pcf" % (name, ty, v))); break
        if pcf.dup:
            probs.append(("duplicate-pcf-type:" + name, "type %s declared twice" % pcf.dup))
        if row.declared != prv.nrows or len(row.threads) != row.declared:
            probs.append(("row-count:" + name, "%s.row declares %d and lists %d rows, prv header says %d"
                          % (name, row.declared, len(row.threads), prv.nrows)))
        if name == "thread":
            exp = [t.rowname for t in model.thread_rows]
        elif name == "cpu":
            exp = [c.name for c in model.cpu_rows]
        else:
            exp = None
        if exp is not None and row.threads != exp:
            probs.append(("row-order:" + name, "%s.row is %s, documented order gives %s" % (name, row.threads[:8], exp[:8])))
    return probs


def gen_case(chk, i):
    rng = chk.rng(i)
    kind = i % 4
    if kind == 3:
        # many looms / processes / ranks
        shape = [(rng.randint(1, 3), [rng.randint(1, 3) for _ in range(rng.randint(1, 3))])
                 for _ in range(rng.randint(2, 5))]
        enabled = rng.choice(["V", "6", "VM"])
    else:
        shape = c06.SHAPES[i % len(c06.SHAPES)]
        enabled = c06.MODEL_SETS[(i // 3) % len(c06.MODEL_SETS)]
    desc = c06.make_desc(rng, shape)
    # scramble loom names so that name order != creation order
    for k, l in enumerate(desc["looms"]):
        l["name"] = "%s%d.dom" % (rng.choice(["z", "a", "m", "B"]), k)
    marks = {}
    labels = {}
    if rng.random() < 0.5:
        # mark types anywhere in the allowed range 0..99, its two ends included
        ta = rng.choice([0, 7, 99, rng.randint(0, 99)])
        tb = rng.choice([t for t in (42, 99, 0, 1, 98) if t != ta])
        marks = {ta: "single", tb: "stack"}
        labels = {ta: {1: "one", 2: "two"}, tb: {3: "three"}}
    g = histgen.Gen(rng, desc, enabled, marks)
    tm = [m for m in "V6" if m in enabled]
    if tm and i % 2 == 1:
        # type matrix: every process registers, in its own order, some task types
        # whose labels other processes use as well and some of its own, then the
        # history goes on and runs tasks of them
        g.run(rng.choice([20, 40]))
        shared = ["solve", "exchange halo", "io", "reduce"]
        seen_procs = set()
        for th in g.threads():
            pk = (th.key[0], th.key[1])
            if pk in seen_procs or not th.active or th.out_of_cpu:
                continue
            seen_procs.add(pk)
            mc = rng.choice(tm)
            labs = rng.sample(shared, rng.randint(1, 3)) + ["own %d.%d" % (th.key[1], n) for n in range(rng.randint(0, 2))]
            rng.shuffle(labs)
            for lab in labs:
                ty = g.next_type; g.next_type += 1
                g.emit(th.key, mc + "Yc", obs.u32(ty) + lab.encode() + b"\0", True)
        g.w = dict(g.w, task=g.w.get("task", 1) * 4)
        g.run(rng.choice([80, 200]))
    else:
        g.run(rng.choice([40, 120]))
    hist = g.finish(close_regions=True)
    return {"desc": desc, "enabled": enabled, "marks": marks, "labels": labels, "hist": hist,
            "breakdown": (kind == 2 and any(m in enabled for m in "V6"))}


_CTX = {}


def run_case(i):
    chk, build = _CTX["chk"], _CTX["plain"]
    case = gen_case(chk, i)
    wd = os.path.join(chk.scratch, "c%d" % i)
    out = {"i": i, "viol": [], "inconclusive": None, "files": 0, "lines": 0, "enabled": case["enabled"], "bd": False}
    try:
        extra = histgen.mark_meta(case["marks"], case["labels"]) or {}
        names = ["thread", "cpu"]
        args = []
        if case["breakdown"]:
            args = ["-b"]
            if "V" in case["enabled"]:
                extra["nosv"] = {"can_breakdown": True}; names.append("nosv-breakdown")
            if "6" in case["enabled"]:
                names.append("nanos6-breakdown")
            out["bd"] = True
        tracegen.write_trace(wd, case["desc"], case["hist"], require=histgen.require_of(case["enabled"]),
                             extra_meta=extra or None, cpus_on=["first", "all", "shuffled", "split"][i % 4],
                             cpu_rng=chk.rng(i, "cpus"), rank_on="one" if (i // 4) % 2 else "all")
        if i % 10 == 7:
            # the directory still holds the (much longer) output files of an earlier emulation
            stale = "#Paraver (01/01/70 at 00:00):99999999999_ns:0:1:1(9:1)\n" + "2:0:1:1:9:99999999998:4:1\n" * 20000
            for nm in names:
                for ext, txt in ((".prv", stale), (".pcf", "EVENT_TYPE\n0 4 stale\nVALUES\n1 stale\n" * 500),
                                 (".row", "LEVEL THREAD SIZE 900\n" + "stale\n" * 900)):
                    with open(os.path.join(wd, nm + ext), "w") as f:
                        f.write(txt)
        r = emu.emu(build, wd, args, timeout=60)
        if r.timeout:
            out["inconclusive"] = "timeout"; return out
        if not emu.accepted(r):
            if case["breakdown"]:
                # breakdown has extra preconditions on the history; only
                # accepted traces are in scope of C13
                out["inconclusive"] = "breakdown run rejected: " + emu.last_error(r)[:120]
                return out
            out["viol"].append(("rejects-legal-history", emu.last_error(r), r.brief())); return out
        model = refemu.FullSystem(case["desc"], case["enabled"], case["marks"])
        for key, msg in check_outputs(wd, model, case["hist"], names):
            out["viol"].append((key, msg, {"case": i}))
        out["files"] = len(names)
        return out
    finally:
        shutil.rmtree(wd, ignore_errors=True)


def main(argv):
    chk = core.Check("C13", "exploration", argv)
    plain = chk.build("plain", ["ovniemu"])
    _CTX.update(chk=chk, plain=plain)
    quick = chk.tier == "quick"
    cases = list(range(400 if quick else 8000))
    if chk.replay:
        cases = [json.load(open(chk.replay))["replay"]["case"]]
    n = files = bd = 0
    sets = set()
    for o in core.pmap(run_case, cases, chunksize=2):
        if o["inconclusive"]:
            chk.note_inconclusive(o["inconclusive"]); continue
        n += 1; files += o["files"]; bd += 1 if o["bd"] else 0
        sets.add((o["enabled"], o["bd"]))
        for key, msg, ob in o["viol"]:
            chk.report(key, msg, dict(ob, case=o["i"]))
    c0 = gen_case(chk, cases[0])
    cov = {"evaluations": n, "distinct_nontrivial": len(sets),
           "rule": "accepted traces from the C06 history generator (all eight models, marks with labels, tasks, ranks, 1-5 "
                   "looms with scrambled names, loom_cpus on one thread, on every thread, in shuffled order or split over the threads of the loom) plus -b breakdown runs; every "
                   ".prv/.pcf/.row parsed independently and checked: non-decreasing times, rows in range, header duration "
                   "= last event time, every type declared, state-type values labelled, .row count and documented order. "
                   "distinct_nontrivial = distinct (model set, breakdown on/off) combinations",
           "samples": [{"case": cases[0], "enabled": c0["enabled"], "looms": [l["name"] for l in c0["desc"]["looms"]],
                        "events": len(c0["hist"])}],
           "output_files_checked": files, "breakdown_runs": bd}
    return chk.finish(cov, assumptions=[
        "state types requiring labels: thread state 4, CPU affinity 6, subsystems 13/20/30/37/50, MPI function 25, idle "
        "16/40, task type 11/36, breakdown 17/41",
        "documented row order: looms by name (or minimum rank), processes by rank or PID, threads by TID, CPUs by "
        "physical id, virtual CPU last"])
