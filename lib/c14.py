"""C14 - version gating.  (a) exhaustive small domain + random triples on the
real version.h; (b) ovni_version_check_str of the built library for versions
around its own and malformed strings; (c) the emulator's model enabling for
required versions around each model's own and for all subsets of models."""

import itertools
import json
import os
import re
import shutil

import core
import emu
import histgen
import obs
import tracegen

MODELS = {"nosv": "V", "nanos6": "6", "nodes": "D", "mpi": "M", "tampi": "T", "openmp": "P", "kernel": "K"}
PROBE = {"V": "VS[", "6": "6W[", "D": "DR[", "M": "MS[", "T": "TLi", "P": "PBb", "K": "KCO"}
PROBE_END = {"V": "VS]", "6": "6W]", "D": "DR]", "M": "MS]", "T": "TLI", "P": "PBB", "K": "KCI"}

# unambiguously malformed version strings
MALFORMED = ["", "1", "1.2", "1..3", ".1.2", "1.2.", ".1.2.3", "1..2.3", "1.2..3", "a.b.c", "1.x.3", "x.2.3", "1.2.y", "-1.2.3", "1.-2.3", "1.2.-3",
             "1,2,3", "one.two.three", "1.2.3x", "v1.2.3", "9" * 70 + ".1.1", "1.1." + "9" * 70, "..", "1.2.3" + "0" * 64,
             "0x1.2.3", "1.0x2.3", "1.2.0x3", "0x1.0x2.0x3", "1e0.2.3"]
WELLFORMED_EXTRA = ["1.2.3-rc1", "1.2.3-4-gabcdef", "01.02.03"]


def compat(want, have):
    return want[0] == have[0] and want[1] <= have[1]


def parse_ok(s):
    """Reference reading of 'X.Y.Z[-suffix]' with non-negative integers;
    returns tuple or None.  Strings strtol tolerates by accident (leading
    blanks, '+', 4th component) return 'unspecified'."""
    if len(s) >= 64:
        return None
    m = re.match(r"^(\d+)\.(\d+)\.(\d+)(-.*)?$", s)
    if m:
        return tuple(int(x) for x in m.group(1, 2, 3))
    if re.match(r"^[ \t+]*\d+\.[ \t+]*\d+\.[ \t+]*\d+([.-].*)?$", s):
        return "unspecified"
    return None


def padded_forms(have):
    """(string, numeric triple) for zero-padded spellings around `have`: decimal numbers
    with leading zeros (not octal), including the digits 8 and 9."""
    M, m, p = have
    out = []
    for w, fmt in (((M, m, p), "%d.%02d.%d"), ((M, m, p), "%d.%03d.%02d"), ((M, m + 1, 0), "%d.%02d.%d"),
                   ((M, m + 1, 0), "%d.%03d.%d"), ((M, 8, 0), "%d.%02d.%d"), ((M, 9, 9), "%d.%02d.%02d"),
                   ((M, m, 8), "%d.%d.%02d"), ((M, m, 19), "%d.%d.%03d"), ((M, 12, 0), "%d.%03d.%d"), ((M, 10, 0), "%d.%03d.%d")):
        out.append((fmt % w, w))
    return out


def long_forms(have):
    """(string, accepted?) for well-formed spellings of `have` grown to lengths around the 63 characters a
    version string may have: with a suffix, and with a zero-padded patch number."""
    out = []
    for L in (62, 63, 64, 65, 100, 1000, 5000):
        pre = "%d.%d.%d-" % have
        out.append((pre + "x" * (L - len(pre)), L < 64))
        pre2 = "%d.%d." % have[:2]
        out.append((pre2 + str(have[2]).rjust(L - len(pre2), "0"), L < 64))
    return out


def digit_relatives(have):
    """Versions whose components, written in decimal, extend or shorten those of
    `have` (1.1.0 -> 1.10.0, 1.19.0, 10.1.0 ...): equal as strings up to some
    point, different as numbers."""
    out = set()
    for pos in (0, 1):
        c = str(have[pos])
        alts = [int(c + d) for d in "059"]
        if len(c) > 1:
            alts.append(int(c[:-1]))
        for a in alts:
            w = list(have); w[pos] = a
            out.add(tuple(w))
            w2 = list(w); w2[2] = have[2] + 1
            out.add(tuple(w2))
    return sorted(out)


def part_a(chk, asan, quick):
    exe = os.path.join(chk.scratch, "version_harness")
    chk.cc(exe, [os.path.join(core.VERIF, "drivers", "version_harness.c")], asan,
           extra=[os.path.join(asan.dir, "src", "libcommon-static.a")])
    triples = [(a, b, c) for a in (0, 1, 2) for b in (0, 1, 2) for c in (0, 9)]
    pairs = [("%d.%d.%d" % w, "%d.%d.%d" % h) for w in triples for h in triples]
    rng = chk.rng(0, "ver")
    for _ in range(2000 if quick else 40000):
        w = tuple(rng.choice([0, 1, 2, 7, rng.randint(0, 10 ** 6)]) for _ in range(3))
        h = tuple(rng.choice([0, 1, 2, 7, w[k], rng.randint(0, 10 ** 6)]) for k in range(3))
        pairs.append(("%d.%d.%d" % w, "%d.%d.%d" % h))
    for h in [(1, 1, 0), (2, 4, 0), (1, 11, 0), (10, 2, 1)]:
        for w in digit_relatives(h):
            pairs.append(("%d.%d.%d" % w, "%d.%d.%d" % h))
            pairs.append(("%d.%d.%d" % h, "%d.%d.%d" % w))
    for h in [(1, 1, 0), (1, 11, 0), (2, 4, 0)]:
        for sfm, w in padded_forms(h):
            pairs.append((sfm, "%d.%d.%d" % h))
    for s in MALFORMED + WELLFORMED_EXTRA:
        pairs.append((s, "1.2.3"))
        pairs.append(("1.2.3", s))
    text = "".join("%s\t%s\n" % p for p in pairs)
    r = core.run_retry([exe], stdin=text.encode(), timeout=120)
    if r.sanitizer or r.sig or r.rc != 0:
        chk.report("version.h:%s" % (core.sanitizer_kind(r.err) if r.sanitizer else "crash"),
                   "version harness crashed: " + r.err[-300:], r.brief())
        return 0, 0
    lines = r.out.strip().split("\n")
    if len(lines) != len(pairs):
        raise core.HarnessError("version harness printed %d lines for %d pairs" % (len(lines), len(pairs)))
    distinct = set()
    for (w, h), l in zip(pairs, lines):
        f = l.split()
        pa, pb, comp = int(f[0]), int(f[1]), int(f[2])
        ew, eh = parse_ok(w), parse_ok(h)
        for s, e, p in ((w, ew, pa), (h, eh, pb)):
            if e == "unspecified":
                continue
            if (e is None) != (p != 0):
                chk.report("version_parse:%s" % ("accepts-malformed" if e is None else "rejects-wellformed"),
                           "version_parse(%r) returned %d" % (s, p), {"string": s})
        if isinstance(ew, tuple) and isinstance(eh, tuple) and pa == 0 and pb == 0:
            distinct.add((ew[0] == eh[0], (ew[1] > eh[1]) - (ew[1] < eh[1]), (ew[2] > eh[2]) - (ew[2] < eh[2])))
            if bool(comp) != compat(ew, eh):
                chk.report("version_is_compatible:%s" % ("accepts" if comp else "rejects"),
                           "want %s have %s -> %d, semantic versioning says %s" % (w, h, comp, compat(ew, eh)),
                           {"want": w, "have": h})
    return len(pairs), len(distinct)


def part_b(chk, asan, quick):
    exe = os.path.join(chk.scratch, "vercheck")
    chk.cc(exe, [os.path.join(core.VERIF, "drivers", "vercheck.c")], asan,
           extra=["-L", asan.libdir, "-lovni", "-lpthread", "-Wl,-rpath," + asan.libdir])
    r = core.run_retry([exe, "0.0.0"], timeout=20)
    # library version from the generated header
    hv = open(os.path.join(asan.incdir, "ovni.h")).read()
    lib = tuple(int(x) for x in re.search(r'OVNI_LIB_VERSION "(\d+)\.(\d+)\.(\d+)"', hv).groups())
    cases = []
    for dM in (-1, 0, 1):
        for dm in (-2, -1, 0, 1, 2):
            for p in (0, lib[2], lib[2] + 7):
                w = (lib[0] + dM, lib[1] + dm, p)
                if min(w) >= 0:
                    cases.append(("%d.%d.%d" % w, compat(w, lib)))
    for w in digit_relatives(lib):
        cases.append(("%d.%d.%d" % w, compat(w, lib)))
    for sfm, w in padded_forms(lib):
        cases.append((sfm, compat(w, lib)))
    cases.append(("%d.0.0" % lib[0], True))
    cases.append(("%d.%d.0" % (lib[0], lib[1] + 100), False))
    for s in MALFORMED:
        cases.append((s, False))
    cases += long_forms(lib)
    cases.append(("%d.%d.%d-rc1" % lib, True))

    def one(c):
        s, exp = c
        # every third case is checked in a thread whose errno holds a stale ERANGE
        stale = (sum(ord(ch) for ch in s) % 3 == 0)
        r = core.run_retry([exe] + (["-E"] if stale else []) + [s], timeout=20)
        return c, r
    n = 0
    for (s, exp), r in core.pmap(one, cases):
        n += 1
        if r.sanitizer:
            chk.report("libovni-version-check:" + core.sanitizer_kind(r.err), "sanitizer report for %r" % s, r.brief())
            continue
        accepted = (r.rc == 0 and "ACCEPTED" in r.out)
        refused = (r.sig == 6 and r.err.strip() != "")
        if not accepted and not refused:
            chk.report("libovni-version-check:odd-exit", "version %r: rc=%s sig=%s" % (s, r.rc, r.sig), r.brief())
        elif accepted != exp:
            chk.report("libovni-version-check:%s" % ("accepts-incompatible" if accepted else "rejects-compatible"),
                       "ovni_version_check_str(%r) %s with library %d.%d.%d" % ((s, "accepted" if accepted else "refused") + lib),
                       {"want": s, "lib": lib})
    # the same checks from several threads at once (runtime workers starting
    # together): accepted versions stay accepted, a refused one stays refused
    good = [s for s, exp in cases if exp][:6]
    bad = [s for s, exp in cases if not exp and parse_ok(s) not in (None, "unspecified")][:4]
    runs = []
    for k in range(4 if quick else 40):
        runs.append((8, 4000 if quick else 20000, "-", good))
        runs.append((rng_threads(k), 300, bad[k % len(bad)], good))

    def threaded(a):
        nth, it, refuse, good_ = a
        return a, core.run_retry([exe, "-t", str(nth), str(it), refuse] + good_, timeout=300)
    nthr = 0
    for (nth, it, refuse, good_), r in core.pmap(threaded, runs):
        if r.timeout:
            chk.note_inconclusive("threaded version check timeout"); continue
        nthr += 1
        if r.sanitizer:
            chk.report("libovni-version-check:threads:" + core.sanitizer_kind(r.err), "sanitizer report in concurrent checks",
                       r.brief()); continue
        if refuse == "-":
            if not (r.rc == 0 and "ACCEPTED-ALL" in r.out):
                chk.report("libovni-version-check:threads:rejects-compatible",
                           "%d threads checking the accepted versions %s at the same time: rc=%s sig=%s %s"
                           % (nth, good_, r.rc, r.sig, r.err.strip().split("\n")[-1][:200]), r.brief())
        else:
            if "ACCEPTED-INCOMPATIBLE" in r.out:
                chk.report("libovni-version-check:threads:accepts-incompatible",
                           "%r accepted while other threads were checking accepted versions (library %d.%d.%d)"
                           % ((refuse,) + lib), r.brief())
            elif r.sig != 6:
                chk.report("libovni-version-check:threads:odd-exit", "rc=%s sig=%s" % (r.rc, r.sig), r.brief())
            elif "ABORT-IN thread=0" not in r.out:
                # the process was stopped, but by a refusal in a thread that only checked accepted versions
                chk.report("libovni-version-check:threads:rejects-compatible",
                           "concurrent checks: the library stopped a thread that was checking accepted versions (%s): %s"
                           % (r.out.strip()[-40:], r.err.strip().split("\n")[-1][:200]), r.brief())
    return n + nthr, lib


def rng_threads(k):
    return [2, 4, 8, 16][k % 4]


def enabled_models(stderr):
    """Names the emulator reports as enabled (INFO lines)."""
    names = []
    grab = False
    if "models are enabled" not in stderr:
        return None     # the listing is not there in the form we know: nothing to judge
    for l in stderr.split("\n"):
        if "models are enabled" in l:
            grab = True
            continue
        if grab:
            m = re.match(r"^\S+ INFO:\s+(\w+)\s+\d+\.\d+\.\d+ '(.)'", l)
            if m:
                names.append(m.group(2))
            else:
                grab = False
    return set(names)


def emu_versions(build):
    r = emu.run_tool(build, "ovniemu", ["-h"])
    vers = {}
    for m in re.finditer(r"^\s+(\S)\s+(\w+)\s+(\d+)\.(\d+)\.(\d+)$", r.err + r.out, re.M):
        vers[m.group(2)] = (m.group(1), (int(m.group(3)), int(m.group(4)), int(m.group(5))))
    return vers


_CTX = {}


def run_emu_case(c):
    chk, build = _CTX["chk"], _CTX["plain"]
    wd = os.path.join(chk.scratch, "e%d" % c["i"])
    try:
        # the streams that carry the requirements are threads of one process, or one
        # process each, or one loom each (rotating)
        n = len(c["requires"])
        layout = ["threads", "procs", "looms"][c["i"] % 3] if n > 1 else "threads"
        if layout == "threads":
            desc = tracegen.simple_system(nthreads=n, ncpus=1)
        elif layout == "procs":
            desc = tracegen.simple_system(nthreads=1, ncpus=1, nprocs=n)
        else:
            desc = tracegen.simple_system(nthreads=1, ncpus=1, nlooms=n)
        keys = tracegen.all_keys(desc)
        hist = []
        t = 100
        for k in keys:
            hist.append((t, k, "OHx", obs.i32(-1, k[2], 0))); t += 1
        for mc in c["events"]:
            hist.append((t, keys[0], PROBE[mc], b"")); t += 1
            hist.append((t, keys[0], PROBE_END[mc], b"")); t += 1
        for k in keys:
            hist.append((t, k, "OHe", b"")); t += 1
        ptm = {}
        for k, req in zip(keys, c["requires"]):
            r = {"ovni": "1.1.0"}
            r.update(req)
            ptm[k] = {"ovni": {"require": r}}
        for kk, vv in c.get("extra", {}).items():
            ptm.setdefault(keys[0], {})[kk] = vv
        tracegen.write_trace(wd, desc, hist, per_thread_meta=ptm)
        r = emu.emu(build, wd, c.get("args", []))
        return c, r
    finally:
        shutil.rmtree(wd, ignore_errors=True)


def part_c(chk, plain, quick):
    vers = emu_versions(plain)
    if set(vers) != set(MODELS) | {"ovni"}:
        raise core.HarnessError("unexpected model list from ovniemu -h: %s" % sorted(vers))
    cases = []
    # versions around each model's own
    for name, (mc, have) in vers.items():
        for dM in (-1, 0, 1):
            for dm in (-1, 0, 1):
                for p in (0, have[2] + 3):
                    w = (have[0] + dM, have[1] + dm, p)
                    if min(w) < 0:
                        continue
                    ev = [] if name == "ovni" else [mc]
                    cases.append({"kind": "version", "requires": [{name: "%d.%d.%d" % w}], "events": ev,
                                  "expect_ok": compat(w, have), "model": name, "want": w, "have": have})
        for w in digit_relatives(have):
            cases.append({"kind": "version", "requires": [{name: "%d.%d.%d" % w}], "events": [] if name == "ovni" else [mc],
                          "expect_ok": compat(w, have), "model": name, "want": w, "have": have})
        for sfm, w in padded_forms(have):
            cases.append({"kind": "version", "requires": [{name: sfm}], "events": [] if name == "ovni" else [mc],
                          "expect_ok": compat(w, have), "model": name, "want": sfm, "have": have})
        # truncated and decorated forms of the emulator's own version
        for sfx in ("%d.%d" % have[:2], "%d.%dx" % have[:2], "%d.%d." % have[:2], "%d.%d.%dx.1" % have):
            cases.append({"kind": "malformed", "requires": [{name: sfx}], "events": [],
                          "expect_ok": False, "model": name, "want": sfx, "have": have})
        for sfm, ok in long_forms(have):
            cases.append({"kind": "version" if ok else "malformed", "requires": [{name: sfm}], "events": [] if (name == "ovni" or not ok) else [mc],
                          "expect_ok": ok, "model": name, "want": sfm[:80], "have": have})
        for s in MALFORMED[:12]:
            cases.append({"kind": "malformed", "requires": [{name: s}], "events": [],
                          "expect_ok": False, "model": name, "want": s, "have": have})
        # several streams requiring the same model: every requirement counts,
        # wherever the incompatible one is in the emulator's thread order
        good = "%d.%d.%d" % have
        older = "%d.%d.%d" % (have[0], max(0, have[1] - 1), 7)
        for bad in ("%d.%d.0" % (have[0], have[1] + 1), "%d.0.0" % (have[0] + 1), "nonsense"):
            for reqs in ([{name: good}, {name: bad}], [{name: bad}, {name: good}], [{name: good}, {name: older}, {name: bad}]):
                cases.append({"kind": "mixed-requirements", "requires": reqs, "events": [], "expect_ok": False,
                              "model": name, "want": [list(r.values())[0] for r in reqs], "have": have})
        cases.append({"kind": "mixed-compatible", "requires": [{name: good}, {name: older}],
                      "events": [] if name == "ovni" else [mc], "expect_ok": True, "model": name,
                      "want": [good, older], "have": have})
    # all subsets of optional models, spread over two threads; one probe event per model of a chosen set
    opt = sorted(MODELS)
    subsets = list(itertools.chain.from_iterable(itertools.combinations(opt, k) for k in range(len(opt) + 1)))
    rng = chk.rng(1, "subsets")
    if quick:
        subsets = rng.sample(subsets, 40)
    for sub in subsets:
        reqA = {n: "%d.%d.%d" % vers[n][1] for n in sub[::2]}
        reqB = {n: "%d.%d.%d" % vers[n][1] for n in sub[1::2]}
        en = set(MODELS[n] for n in sub)
        # events of every enabled model: accepted, enabled set must match
        cases.append({"kind": "subset", "requires": [reqA, reqB], "events": sorted(en), "expect_ok": True,
                      "expect_enabled": en | {"O"}})
        # one event of a model that is not enabled: rejected
        absent = [MODELS[n] for n in opt if n not in sub]
        if absent:
            x = rng.choice(absent)
            cases.append({"kind": "event-of-disabled-model", "requires": [reqA, reqB], "events": sorted(en) + [x],
                          "expect_ok": False, "probe": x})
            # ... unless all models are forced on
            cases.append({"kind": "forced-all", "requires": [reqA, reqB], "events": sorted(en) + [x],
                          "expect_ok": True, "args": ["-a"], "expect_enabled": set(MODELS.values()) | {"O"}})
    # a model is enabled exactly when ovni.require names it: attributes that merely look like a requirement
    # (a version stored under the model's own name, a "require" object outside "ovni") neither enable a model
    # nor take part in version gating
    for name in opt:
        mc, have = vers[name]
        good = "%d.%d.%d" % have
        for extra in ({name: {"version": good}}, {name: {"require": good}}, {"require": {name: good}}):
            cases.append({"kind": "attribute-is-not-a-requirement", "requires": [{}], "extra": extra, "events": [mc],
                          "expect_ok": False, "probe": mc})
        for bad in ("%d.0.0" % (have[0] + 1), "nonsense"):
            cases.append({"kind": "attribute-is-not-gated", "requires": [{name: good}], "extra": {name: {"version": bad}},
                          "events": [mc], "expect_ok": True})
    # the number of streams that require a model does not matter: 255, 256, 257, 512 of them
    for name in ("mpi", "nosv"):
        mc, have = vers[name]
        for nreq in ((255, 256, 257) if quick else (255, 256, 257, 511, 512, 513)):
            cases.append({"kind": "many-requiring-streams", "requires": [{name: "%d.%d.%d" % have}] * nreq, "events": [mc],
                          "expect_ok": True, "expect_enabled": {mc, "O"}})
    # forcing all models on (-a) must not switch version gating off
    for c in list(cases):
        if c["kind"] in ("version", "malformed", "mixed-requirements"):
            d = dict(c); d["args"] = ["-a"]; d["kind"] = c["kind"] + "+a"
            cases.append(d)
    for i, c in enumerate(cases):
        c["i"] = i
    n = 0
    kinds = {}
    for c, r in core.pmap(run_emu_case, cases, chunksize=4):
        if r.timeout:
            chk.note_inconclusive("emulator timeout"); continue
        n += 1
        kinds[c["kind"]] = kinds.get(c["kind"], 0) + 1
        if r.sig or r.rc not in (0, 1):
            chk.report("emu-crash:%s" % c["kind"], "emulator crashed (sig %s rc %s)" % (r.sig, r.rc), r.brief()); continue
        acc = emu.accepted(r)
        if acc != c["expect_ok"]:
            if c["kind"].split("+")[0] in ("version", "malformed", "mixed-requirements", "mixed-compatible"):
                key = "emu-model-version:%s" % ("accepts-incompatible" if acc else "rejects-compatible")
                what = "model %s: required %s, emulator has %s -> %s" % (c["model"], c["want"], c["have"],
                                                                        "accepted" if acc else "rejected: " + emu.last_error(r))
            else:
                key = "emu-enable:%s:%s" % (c["kind"], "accepted" if acc else "rejected")
                what = "requires=%s events=%s args=%s -> %s %s" % (c["requires"], c["events"], c.get("args"),
                                                                   "accepted" if acc else "rejected", emu.last_error(r))
            chk.report(key, what, {k: (sorted(v) if isinstance(v, set) else v) for k, v in c.items()})
            continue
        if acc and "expect_enabled" in c:
            got = enabled_models(r.err)
            if got is None:
                chk.note_inconclusive("no list of enabled models in the emulator's output")
            elif got != c["expect_enabled"]:
                chk.report("emu-enabled-set", "required %s, emulator enabled %s (expected %s)"
                           % (c["requires"], sorted(got), sorted(c["expect_enabled"])), {"requires": c["requires"]})
    return n, kinds


def main(argv):
    chk = core.Check("C14", "exploration", argv)
    asan = chk.build("asan", ["ovni", "common-static"])
    plain = chk.build("plain", ["ovniemu"])
    _CTX.update(chk=chk, plain=plain)
    quick = chk.tier == "quick"
    na, da = part_a(chk, asan, quick)
    nb, lib = part_b(chk, asan, quick)
    nc, kinds = part_c(chk, plain, quick)
    cov = {"evaluations": na + nb + nc, "distinct_nontrivial": da + len(kinds) + 2,
           "rule": "(a) all (want,have) pairs over majors/minors {0,1,2} x patches {0,9} (324, exhaustive) + random "
                   "triples + malformed strings on the real version.h; (b) ovni_version_check_str around the library's "
                   "version + malformed; (c) ovniemu on traces requiring each of the 8 models at versions around its own, "
                   "malformed requirements, and subsets of optional models spread over two threads (with probe events of "
                   "enabled and of one disabled model, with and without -a). distinct_nontrivial = distinct (major equal, "
                   "minor order, patch order) classes + emulator case kinds + 2 library verdict classes",
           "samples": [{"want": "1.2.9", "have": "1.1.0", "expected": "incompatible (minor greater)"},
                       {"requires": [{"nosv": "2.4.0"}, {"mpi": "1.0.0"}], "events": ["VS[", "MS["], "expected": "accepted, "
                        "enabled = {ovni, nosv, mpi}"}],
           "version_h_pairs": na, "version_classes": da, "library_checks": nb, "library_version": list(lib),
           "emulator_cases": nc, "emulator_kinds": kinds, "exhaustive": True,
           "exhaustive_scope": "18x18 version triples on version.h; all 128 subsets of optional models in the thorough tier"}
    return chk.finish(cov, assumptions=[
        "strings that strtol tolerates by accident (leading blank or '+', a fourth component) are recorded, not judged",
        "the set of enabled models is read from the emulator's own INFO lines"])
