"""C15 - metadata merge is distribution-independent; conflicts are refused
cleanly.  Metamorphic: several variants of one trace that differ only in which
thread carries per-process / per-loom attributes, in the order of loom_cpus
elements and in stream creation order must give byte-identical outputs in the
documented row order; single contradictions must give exit status 1 with a
message (no signal, no success)."""

import json
import os
import shutil

import core
import emu
import histgen
import obs
import pv
import refemu
import tracegen


def gen_system(rng):
    nlooms = rng.randint(1, 3)
    mode = rng.choice(["none", "all", "some"]) if nlooms > 1 else rng.choice(["none", "all"])
    looms = []
    tid, pid = 1000, 50
    used_tids, used_pids = set(), set()
    rk = list(range(40))
    rng.shuffle(rk)
    if rng.random() < 0.35:
        # names whose host part (up to the first dot) is a prefix of another's, followed by
        # a character on either side of '.' in byte order: name order != (host, name) order
        fam = rng.choice([["node1.0", "node1-mic0.0", "node1.1", "node10.0", "node1+x.0"],
                          ["host", "host-ib0", "host.1", "host0"],
                          ["n.9", "n.10", "n-1.9", "n_1.9", "n,1.9"]])
        names = rng.sample(fam, min(nlooms, len(fam)))
    else:
        names = rng.sample(["zeta", "alpha.x", "mid", "Beta", "n10", "n9"], nlooms)
    same_pids = rng.random() < 0.35      # process ids are only unique inside a node
    prev_pids = []
    for li in range(nlooms):
        if same_pids:
            used_pids = set()
        ncpus = rng.randint(1, 4)
        phy = rng.sample(range(0, 64), ncpus)
        procs = []
        ranked = mode == "all" or (mode == "some" and li == 0)
        nprocs = rng.randint(1, 3)
        # a family of process ids of different decimal widths whose path order (proc.10 < proc.1000 < proc.999)
        # starts with the smallest number and continues out of numeric order
        b = rng.choice([10, 100, 1000])
        famp = [b, b * 100, b * 100 - 1] if (nprocs == 3 and rng.random() < 0.3 and not same_pids) else None
        for _ in range(nprocs):
            nt = rng.randint(1, 4)
            if rng.random() < 0.3:
                # thread ids that straddle a change of decimal width (the kernel's
                # counter passing 9999 -> 10000 ...): numeric and string order differ
                edge = 10 ** rng.randint(1, 6)
                pool = [e for e in range(edge - 6, edge + 6) if e > 0 and e not in used_tids]
                if len(pool) < nt:       # the ids around that edge are taken already
                    pool = [e for e in range(tid, tid + 50) if e not in used_tids]
                tids = rng.sample(pool, nt)
            else:
                tids = rng.sample(range(tid, tid + 50), nt)
            used_tids.update(tids)
            tid += 50
            # process ids, too, are compared as numbers
            ppid = pid + rng.randint(0, 5)
            if rng.random() < 0.3:
                ppid = rng.choice([7, 98, 99, 100, 101, 9998, 10002])
            if same_pids and prev_pids and len(procs) < len(prev_pids) and rng.random() < 0.8:
                ppid = prev_pids[len(procs)]
            if famp and famp[len(procs)] not in used_pids:
                ppid = famp[len(procs)]
            while ppid in used_pids:
                ppid += 1
            used_pids.add(ppid)
            p = {"pid": ppid, "appid": rng.randint(1, 5), "threads": sorted(tids)}
            pid += 10
            if ranked:
                p["rank"], p["nranks"] = rk.pop(), 64
            procs.append(p)
        prev_pids = [p["pid"] for p in procs]
        looms.append({"name": names[li], "cpus": [(i, phy[i]) for i in range(ncpus)], "procs": procs})
    return {"looms": looms}


def gen_history(rng, desc, enabled):
    g = histgen.Gen(rng, desc, enabled, marks={5: "single"}, weights={"aff": 4})
    g.run(rng.choice([30, 80]))
    return g.finish(close_regions=True)


def variant_meta(rng, desc, enabled):
    """Per-thread metadata for one distribution of the per-process and
    per-loom attributes.  Returns {key: meta dict}."""
    metas = {}
    for l in desc["looms"]:
        keys = [(l["name"], p["pid"], t) for p in l["procs"] for t in p["threads"]]
        # loom_cpus: cover with 1..n overlapping sub-lists in arbitrary order
        cover = {k: [] for k in keys}
        cpus = list(l["cpus"])
        carriers = rng.sample(keys, rng.randint(1, len(keys)))
        for c in cpus:
            for k in rng.sample(carriers, rng.randint(1, len(carriers))):
                cover[k].append(c)
        for k in carriers:
            # extra overlap
            for c in cpus:
                if c not in cover[k] and rng.random() < 0.3:
                    cover[k].append(c)
            rng.shuffle(cover[k])
        for p in l["procs"]:
            pk = [(l["name"], p["pid"], t) for t in p["threads"]]
            app_on = set(rng.sample(pk, rng.randint(1, len(pk))))
            rank_on = set(rng.sample(pk, rng.randint(1, len(pk)))) if "rank" in p else set()
            for k in pk:
                m = obs.thread_meta(k[2], k[1], k[0], app_id=p["appid"] if k in app_on else None,
                                    cpus=cover[k] if cover[k] else None,
                                    require=histgen.require_of(enabled),
                                    rank=p.get("rank") if k in rank_on else None,
                                    nranks=p.get("nranks") if k in rank_on else None,
                                    extra=histgen.mark_meta({5: "single"}))
                metas[k] = m
    return metas


def write_variant(d, desc, hist, metas, order):
    per = {}
    for h in hist:
        per.setdefault(h[1], []).append((h[0], h[2], h[3], h[4]))
    for k in order:
        obs.write_stream(d, k[0], k[1], k[2], metas[k], per.get(k, []))
    os.makedirs(os.path.join(d, "cfg"), exist_ok=True)


CONTRA = ["index-two-phyids-early", "phyid-two-indices-early", "two-appids", "two-ranks", "two-nranks", "rank>=nranks", "index-two-phyids", "phyid-two-indices",
          "duplicate-tid", "no-cpus", "no-appid", "index-gap", "index-gap-far", "negative-index", "negative-rank", "appid-zero",
          "rank-missing-in-one-proc", "nranks-missing"]


def contradiction(rng, desc, metas, kind):
    """Mutates metas in place; returns False if the kind does not apply."""
    looms = desc["looms"]
    l = rng.choice(looms)
    p = rng.choice(l["procs"])
    pk = [(l["name"], p["pid"], t) for t in p["threads"]]
    lk = [(l["name"], q["pid"], t) for q in l["procs"] for t in q["threads"]]
    if kind == "two-appids":
        if len(pk) < 2:
            return False
        a, b = rng.sample(pk, 2)
        metas[a]["ovni"]["app_id"] = p["appid"]; metas[b]["ovni"]["app_id"] = p["appid"] + 1
    elif kind in ("two-ranks", "two-nranks"):
        if len(pk) < 2:
            return False
        a, b = rng.sample(pk, 2)
        for k, dv in ((a, 0), (b, 1)):
            metas[k]["ovni"]["rank"] = p.get("rank", 0) + (dv if kind == "two-ranks" else 0)
            metas[k]["ovni"]["nranks"] = p.get("nranks", 64) + (dv if kind == "two-nranks" else 0)
        # every process of the loom needs a rank then
        for q in l["procs"]:
            if q is not p and "rank" not in q:
                k = (l["name"], q["pid"], q["threads"][0])
                metas[k]["ovni"]["rank"] = 60 + l["procs"].index(q); metas[k]["ovni"]["nranks"] = 64
    elif kind == "rank>=nranks":
        k = pk[0]
        metas[k]["ovni"]["rank"] = 64; metas[k]["ovni"]["nranks"] = 64
    elif kind in ("index-two-phyids-early", "phyid-two-indices-early"):
        # sparse per-thread lists: the two conflicting entries are the only
        # CPUs of the first two streams the emulator loads (relpath order), the
        # rest of the loom's CPUs arrive later
        order = sorted(lk, key=lambda k: "loom.%s/proc.%d/thread.%d" % k)
        if len(order) < 3 or len(l["cpus"]) < 2:
            return False
        i, ph = max(l["cpus"])
        for k in lk:
            metas[k]["ovni"].pop("loom_cpus", None)
        if kind == "index-two-phyids-early":
            a, b = {"index": i, "phyid": ph}, {"index": i, "phyid": ph + 500}
        else:
            a, b = {"index": i, "phyid": ph}, {"index": i + 1, "phyid": ph}
        metas[order[0]]["ovni"]["loom_cpus"] = [a]
        metas[order[1]]["ovni"]["loom_cpus"] = [b]
        rest = [{"index": ci, "phyid": cp} for (ci, cp) in l["cpus"] if ci != i]
        if kind == "phyid-two-indices-early":
            rest.append({"index": i + 2, "phyid": 900})   # keep indices in bounds
        metas[order[2]]["ovni"]["loom_cpus"] = rest
    elif kind == "index-two-phyids":
        k = rng.choice(lk)
        i, ph = rng.choice(l["cpus"])
        metas[k]["ovni"].setdefault("loom_cpus", []).append({"index": i, "phyid": 999})
    elif kind == "phyid-two-indices":
        k = rng.choice(lk)
        i, ph = l["cpus"][0]
        metas[k]["ovni"].setdefault("loom_cpus", []).append({"index": i + 50, "phyid": ph})
    elif kind == "duplicate-tid":
        if len(pk) < 2:
            return False
        metas[pk[1]]["ovni"]["tid"] = pk[0][2]
    elif kind == "no-cpus":
        for k in lk:
            metas[k]["ovni"].pop("loom_cpus", None)
    elif kind == "no-appid":
        for k in pk:
            metas[k]["ovni"].pop("app_id", None)
    elif kind in ("index-gap", "index-gap-far"):
        # one index of 0..N-1 is missing: its CPU got an index just past the end (N, so that the largest
        # index equals the number of CPUs), a little further, or far away
        ncpu = len(l["cpus"])
        victim = rng.randrange(ncpu)
        moved = ncpu if kind == "index-gap" else ncpu + rng.choice([1, 3, 1000])
        for k in lk:
            if "loom_cpus" in metas[k]["ovni"]:
                for c in metas[k]["ovni"]["loom_cpus"]:
                    if c["index"] == victim:
                        c["index"] = moved
    elif kind == "negative-index":
        k = rng.choice(lk)
        metas[k]["ovni"].setdefault("loom_cpus", []).append({"index": -2, "phyid": 998})
    elif kind == "negative-rank":
        metas[pk[0]]["ovni"]["rank"] = -1; metas[pk[0]]["ovni"]["nranks"] = 4
    elif kind == "appid-zero":
        for k in pk:
            if "app_id" in metas[k]["ovni"]:
                metas[k]["ovni"]["app_id"] = 0
    elif kind == "rank-missing-in-one-proc":
        if len(l["procs"]) < 2 or "rank" not in p:
            return False
        for k in pk:
            metas[k]["ovni"].pop("rank", None); metas[k]["ovni"].pop("nranks", None)
    elif kind == "nranks-missing":
        if "rank" not in p:
            return False
        for k in pk:
            metas[k]["ovni"].pop("nranks", None)
    return True


_CTX = {}


def run_system(i):
    chk, build = _CTX["chk"], _CTX["plain"]
    rng = chk.rng(i)
    desc = gen_system(rng)
    enabled = rng.choice(["V", "6", "M", "VM"])
    hist = gen_history(rng, desc, enabled)
    keys = tracegen.all_keys(desc)
    model = refemu.FullSystem(desc, enabled, {5: "single"})
    out = {"i": i, "viol": [], "variants": 0, "contras": 0, "inconclusive": 0, "shape": (len(desc["looms"]), len(keys)),
           "contra_kinds": set()}
    wd = os.path.join(chk.scratch, "s%d" % i)
    ref = None
    nvar = _CTX["nvar"]
    try:
        for v in range(nvar):
            metas = variant_meta(rng, desc, enabled)
            order = list(keys); rng.shuffle(order)
            shutil.rmtree(wd, ignore_errors=True)
            write_variant(wd, desc, hist, metas, order)
            r = emu.emu(build, wd)
            if r.timeout:
                out["inconclusive"] += 1; continue
            out["variants"] += 1
            if r.sig:
                out["viol"].append(("crash:sig%d:valid-metadata" % r.sig, "emulator died with signal %d on valid, consistently "
                                    "distributed metadata" % r.sig, {"system": i, "variant": v, "emu": r.brief()}))
                continue
            if not emu.accepted(r):
                out["viol"].append(("rejects-valid-distribution", "variant %d rejected: %s" % (v, emu.last_error(r)),
                                    {"system": i, "variant": v, "emu": r.brief()}))
                continue
            files = pv.read_bytes(wd)
            rows_t = pv.Row(os.path.join(wd, "thread.row")).threads
            rows_c = pv.Row(os.path.join(wd, "cpu.row")).threads
            if rows_t != [t.rowname for t in model.thread_rows]:
                out["viol"].append(("row-order:thread", "thread.row %s, documented order %s"
                                    % (rows_t, [t.rowname for t in model.thread_rows]), {"system": i, "variant": v}))
            if rows_c != [c.name for c in model.cpu_rows]:
                out["viol"].append(("row-order:cpu", "cpu.row %s, documented order %s"
                                    % (rows_c, [c.name for c in model.cpu_rows]), {"system": i, "variant": v}))
            if ref is None:
                ref = files
            else:
                for k in ref:
                    if files.get(k) != ref[k]:
                        out["viol"].append(("distribution-dependence:" + k,
                                            "%s differs between two distributions of the same metadata" % k,
                                            {"system": i, "variant": v}))
                        break
        # contradictions
        for kind in CONTRA:
            metas = variant_meta(rng, desc, enabled)
            if not contradiction(rng, desc, metas, kind):
                continue
            order = list(keys); rng.shuffle(order)
            shutil.rmtree(wd, ignore_errors=True)
            write_variant(wd, desc, hist, metas, order)
            r = emu.emu(build, wd)
            if r.timeout:
                out["inconclusive"] += 1; continue
            out["contras"] += 1
            out["contra_kinds"].add(kind)
            if r.sig:
                out["viol"].append(("contradiction-crash:%s:sig%d" % (kind, r.sig), "emulator died with signal %d on "
                                    "contradictory metadata (%s)" % (r.sig, kind), {"system": i, "kind": kind, "emu": r.brief()}))
            elif emu.accepted(r) or r.rc == 0:
                out["viol"].append(("contradiction-accepted:" + kind, "emulator proceeded on contradictory metadata (%s)" % kind,
                                    {"system": i, "kind": kind, "emu": r.brief()}))
            elif r.rc != 1 or not [l for l in r.err.split("\n") if l.strip() and "INFO" not in l]:
                out["viol"].append(("contradiction-unclean:" + kind, "rc=%s without an error message" % r.rc,
                                    {"system": i, "kind": kind, "emu": r.brief()}))
        return out
    finally:
        shutil.rmtree(wd, ignore_errors=True)


def main(argv):
    chk = core.Check("C15", "exploration", argv)
    plain = chk.build("plain", ["ovniemu"])
    quick = chk.tier == "quick"
    _CTX.update(chk=chk, plain=plain, nvar=6 if quick else 12)
    systems = list(range(60 if quick else 1200))
    if chk.replay:
        systems = [json.load(open(chk.replay))["replay"]["system"]]
    nv = ncon = 0
    shapes = set()
    kinds = set()
    for o in core.pmap(run_system, systems):
        nv += o["variants"]; ncon += o["contras"]
        chk.inconclusive += o["inconclusive"]
        shapes.add(o["shape"])
        kinds |= o["contra_kinds"]
        for key, what, ob in o["viol"]:
            chk.report(key, what, ob)
    cov = {"evaluations": nv + ncon, "distinct_nontrivial": len(shapes) + len(kinds),
           "rule": "random systems (1-3 looms with scrambled names, 1-3 processes, 1-4 threads, ranks on all/some/no "
                   "looms, 1-4 CPUs with random physical ids) and one fixed history; variants distribute app_id, rank/nranks "
                   "over non-empty thread subsets, split loom_cpus into overlapping sub-lists in arbitrary element order and "
                   "shuffle stream creation order; all variants must be accepted with byte-identical outputs in the "
                   "documented row order. Single contradictions (18 kinds) must end with exit 1 and an ERROR line. "
                   "distinct_nontrivial = distinct (looms, threads) shapes + contradiction kinds exercised",
           "samples": [{"contradiction_kinds": sorted(kinds)}], "variants_run": nv, "contradictions_run": ncon,
           "systems": len(systems)}
    return chk.finish(cov, assumptions=[
        "row order oracle: lib/refemu.py (looms by name or by minimum rank when every loom has ranks, processes by rank "
        "or PID, threads by TID, CPUs by physical id, virtual CPU last)"])
