"""C16 - ovnisort yields the stable sorted permutation.  Streams whose only
out-of-order events lie inside OU[ OU] regions are sorted by the real
ovnisort; the result must be byte-for-byte the stable sort by clock of the
original event list, idempotent, accepted by ovnisort -c and ovniemu; regions
whose destination lies beyond the look-back window must make it fail."""

import json
import os
import shutil

import core
import emu
import histgen
import obs

MARK = {"ovni": {"mark": {"9": {"title": "sort id", "chan_type": "single"}}}}


def gen_stream(rng, tid, scope, before_start=None, shift=0):
    """Returns (events, n_lookback, info).  Events: list of
    [clock, mcv, payload(bytes), jumbo].  Every event carries a unique id
    so that any permutation is visible."""
    uid = [0]

    # three streams in ten consist mostly of events without any payload (12 bytes, indistinguishable but
    # for their clock), with an event of another size now and then
    lean = rng.random() < 0.3

    def body(clock):
        uid[0] += 1
        k = rng.random()
        if lean and k < 0.88:
            return [clock, "OB.", b"", False]
        if lean:
            k = (k - 0.88) / 0.12
        if k < 0.6:
            return [clock, "OM=", obs.i64(uid[0]) + obs.i32(9), False]
        if k < 0.85:
            return [clock, "OB.", obs.u64(uid[0]), False]
        return [clock, "OB.", obs.u64(uid[0]) + bytes(rng.getrandbits(8) for _ in range(rng.choice([0, 1, 7, 200]))), True]

    evs = [[1000, "OHx", obs.i32(-1, tid, 0), False]]
    clock = 1000
    # now and then a stream whose first region holds events older than the very
    # first event of the stream (their place is the start of the file)
    draw = rng.random() < 0.12
    before_start = scope != "fail" and (draw if before_start is None else before_start) and shift >= 0
    nbase = rng.choice([5, 30, 200, 1500])
    nreg = rng.randint(1, 8)
    # lean streams are often short and full of regions that reach far back, over earlier regions and
    # over the few events of another size
    dense = lean and rng.random() < 0.7
    if dense:
        nbase = rng.choice([8, 12, 20, 30])
        nreg = rng.randint(4, 8)
    reg_at = sorted(rng.sample(range(1, nbase + 1), min(nreg, nbase)))
    tail_region = scope == "fail" and rng.random() < 0.5
    if tail_region:
        reg_at[-1] = nbase          # the last region comes after every other event
    if rng.random() < 0.15:
        reg_at[0] = 0 if False else 1
    maxdepth = 0
    info = {"regions": []}
    big = rng.random() < 0.3     # some streams have gaps of seconds (differences beyond 2^31 ns)
    for i in range(1, nbase + 1):
        clock += rng.choice([0, 0, 1, 2, 10])
        if big and rng.random() < 0.05:
            clock += rng.choice([2 ** 31 + 5, 3 * 10 ** 9, 2 ** 32 + 7, 5 * 10 ** 9])
        evs.append(body(clock))
        if i in reg_at:
            # region: events whose proper place is d events back
            clock += rng.choice([0, 1, 5])
            evs.append([clock, "OU[", b"", False])
            nin = rng.choice([0, 1, 2, 5, rng.randint(0, 20)])
            if scope == "fail":
                d = len(evs) - 2     # all the way back, just after OHx
            elif dense:
                d = rng.randint(0, len(evs) - 2)
                nin = nin or rng.randint(1, 3)
            else:
                d = rng.randint(0, min(len(evs) - 2, rng.choice([1, 5, 50, 2000])))
            anchor = evs[len(evs) - 1 - d][0] if d > 0 else clock
            lo = max(1000, min(anchor, clock))
            inside = []
            future = scope != "fail" and rng.random() < 0.25
            for _ in range(nin):
                if future:
                    # region not displaced into the past at all: every clock is
                    # later than what precedes it, only the inside is unordered
                    c = clock + rng.randint(1, 40)
                else:
                    c = rng.randint(lo, clock) if rng.random() < 0.8 else rng.choice([e[0] for e in evs[max(1, len(evs) - 1 - d):]] + [lo])
                inside.append(body(c))
            if shift < 0 and inside and not future and lo == 1000 and rng.random() < 0.7:
                # an event of the region carries the very first clock of the stream (0 after the shift)
                inside[rng.randrange(len(inside))][0] = 1000
            if before_start and i == reg_at[0] and inside and not future:
                for e in inside[:rng.randint(1, len(inside))]:
                    e[0] = rng.randint(900, 999)
                info["before_start"] = True
            if future and inside:
                inside[0][0] = min(e[0] for e in inside)     # first event carries the lowest clock
                clock = max(e[0] for e in inside)
            elif rng.random() < 0.5:
                inside.sort(key=lambda e: e[0])   # the doc says they must be sorted; also try unsorted
            evs.extend(inside)
            clock += rng.choice([0, 1, 3])
            evs.append([clock, "OU]", b"", False])
            info["regions"].append({"at": i, "inside": nin, "depth": d})
    clock += 1
    if tail_region and evs[-1][1] == "OU]":
        # the region closes the stream (it comes after the thread's end event): its
        # OU] is the very last event
        k = max(n for n, e in enumerate(evs) if e[1] == "OU[")
        evs.insert(k, [evs[k][0], "OHe", b"", False])
        info["ends_with_region"] = True
    else:
        evs.append([clock, "OHe", b"", False])
    # Look-back each region needs, measured on the stream as ovnisort sees
    # it: regions are processed in order and every earlier region has already
    # been sorted into place when the next one is reached (an event that an
    # earlier region moved backwards no longer "blocks" the search).
    cur = [list(e) for e in evs]
    need = 0
    k = 0
    while k < len(cur):
        if cur[k][1] == "OU[":
            j = k + 1
            while cur[j][1] != "OU]":
                j += 1
            if j > k + 1:
                cmin = min(e[0] for e in cur[k + 1:j])
                b = j - 1
                back = 0
                while b >= 0 and cur[b][0] >= cmin:
                    b -= 1; back += 1
                need = max(need, back)
                first = max(b, 0)
                cur[first:j] = sorted(cur[first:j], key=lambda e: e[0])
            k = j
        k += 1
    info["need"] = need
    if shift:
        for e in evs:
            e[0] += shift
        info["crosses_2^63" if shift > 0 else "zero_origin"] = True
    return evs, info


def stable_sorted(evs):
    return sorted(evs, key=lambda e: e[0])     # Python's sort is stable


def to_tuple(e):
    return (e[0], e[1], bytes(e[2]), bool(e[3]))


_CTX = {}


def run_case(i):
    chk = _CTX["chk"]
    rng = chk.rng(i)
    scope = "fail" if i % 6 == 5 else "ok"
    nstreams = rng.randint(1, 3)
    # clocks are unsigned 64-bit numbers: in one case in ten the streams cross 2^63
    shift = (2 ** 63 - rng.choice([1100, 1500, 4000])) if rng.random() < 0.1 else 0
    if i % 7 == 3:
        shift = -1000          # relative clocks: the streams start at clock 0, and 0 is a clock like any other
    streams = []
    need = 0
    for s in range(nstreams):
        # a later stream of the trace quite often starts with a region that belongs before its first event
        evs, info = gen_stream(rng, 300 + s, scope if s == 0 else "ok", before_start=(rng.random() < 0.4) if s else None, shift=shift)
        streams.append((300 + s, evs, info))
        need = max(need, info["need"])
    wide = scope == "ok" and i % 9 == 4
    if wide:
        # a wide trace: 40-60 further streams that need no sorting at all, the tool running with fewer file
        # descriptors than the trace has streams (it handles one stream at a time)
        for s in range(rng.randint(40, 60)):
            tid = 400 + s
            evs = [[1000, "OHx", obs.i32(-1, tid, 0), False]] + \
                  [[1001 + k, "OB.", obs.u64(k), False] for k in range(rng.randint(0, 5))] + [[1100, "OHe", b"", False]]
            streams.append((tid, evs, {"regions": [], "need": 0}))
    if scope == "ok":
        n = rng.choice([2 * need + 4, 2 * need + 4, 4 * need + 10, 10 ** 6])
    else:
        # destination (need events back) must be more than 2n back
        if need < 12:
            return {"i": i, "skip": True}
        n = max(4, need // 2 - 2)
        if need <= 2 * n:
            return {"i": i, "skip": True}
    build = _CTX["asan"] if (_CTX.get("asan") and i % 9 == 0) else _CTX["plain"]
    env = {"OVNI_VERIF_HEAPBUF": "1"} if build.flavour == "asan" else {}
    shortio = build.flavour == "plain" and i % 4 == 1
    if shortio:
        # the file system may transfer less than asked in one pwrite()
        env = {"LD_PRELOAD": _CTX["shortio"], "SHORTIO_SEED": str(chk.case_seed(i) % 100000)}
    wd = os.path.join(chk.scratch, "c%d" % i)
    out = {"i": i, "skip": False, "viol": None, "scope": scope, "n": n, "need": need, "inconclusive": None,
           "events": sum(len(s[1]) for s in streams), "regions": sum(len(s[2]["regions"]) for s in streams),
           "before_start": sum(1 for s in streams if s[2].get("before_start")), "fail_windows": 0,
           "shortio": 1 if shortio else 0, "io_fault": 0}
    try:
        def write_all():
            shutil.rmtree(wd, ignore_errors=True)
            bef = {}
            for tid, evs, info in streams:
                d = obs.write_stream(wd, "L", 1, tid, obs.thread_meta(tid, 1, "L", cpus=[(0, 0)], extra=MARK),
                                     [to_tuple(e) for e in evs])
                bef[tid] = open(os.path.join(d, "stream.obs"), "rb").read()
            os.makedirs(os.path.join(wd, "cfg"), exist_ok=True)
            return bef
        if scope == "fail":
            # every look-back from 4 up to just under half the needed depth: none can
            # reach the destination, whatever the number of events modulo the ring size
            ns = list(range(4, min(need // 2, 4 + 48)))
            if n not in ns:
                ns.append(n)
            out["fail_windows"] = len(ns)
            for nn in ns:
                write_all()
                r = emu.run_tool(build, "ovnisort", ["-n", str(nn), wd], timeout=60, env=env)
                if r.timeout:
                    out["inconclusive"] = "timeout"; return out
                if r.sanitizer:
                    out["viol"] = ("sanitizer:%s:%s" % (core.sanitizer_kind(r.err), core.first_repo_frame(r.err)),
                                   "sanitizer report in ovnisort", r.brief()); return out
                if r.rc == 0 and r.sig == 0:
                    out["viol"] = ("unsortable-but-exit-0", "destination %d events back, look-back %d: ovnisort exited 0"
                                   % (need, nn), r.brief()); out["n"] = nn; return out
                if not r.err.strip():
                    out["viol"] = ("unsortable-silent", "ovnisort failed without saying so", r.brief()); return out
            return out
        before = write_all()
        if build.flavour == "plain" and i % 8 == 3 and out["regions"]:
            # a pwrite of the sorted window fails (EIO): ovnisort cannot have sorted the
            # trace, so it must not report success
            envf = {"LD_PRELOAD": _CTX["shortio"], "SHORTIO_FAIL": str(1 + i % 3)}
            rf = emu.run_tool(build, "ovnisort", ["-n", str(n), wd], timeout=60, env=envf)
            out["io_fault"] = 1
            if not rf.timeout and rf.rc == 0 and rf.sig == 0:
                still = False
                for tid, evs, info in streams:
                    got = [e.clock for e in obs.decode_file(os.path.join(obs.stream_dir(wd, "L", 1, tid), "stream.obs"))]
                    still = still or got != sorted(got)
                if still:
                    out["viol"] = ("write-failed-but-exit-0", "a pwrite of ovnisort failed with EIO, a stream is still unsorted "
                                   "and ovnisort exited 0", rf.brief()); return out
            before = write_all()
        r = emu.run_tool(build, "ovnisort", ["-n", str(n), wd], timeout=60, env=env, nofile=32 if wide else None)
        if r.timeout:
            out["inconclusive"] = "timeout"; return out
        if r.sanitizer:
            out["viol"] = ("sanitizer:%s:%s" % (core.sanitizer_kind(r.err), core.first_repo_frame(r.err)),
                           "sanitizer report in ovnisort", r.brief()); return out
        if r.rc != 0 or r.sig:
            out["viol"] = ("sort-fails-in-scope", "ovnisort rc=%s sig=%s with destination %d back and look-back %d: %s"
                           % (r.rc, r.sig, need, n, r.err.strip().split("\n")[-1][:200]), r.brief()); return out
        after = {}
        for tid, evs, info in streams:
            p = os.path.join(obs.stream_dir(wd, "L", 1, tid), "stream.obs")
            data = open(p, "rb").read()
            after[tid] = data
            if len(data) != len(before[tid]):
                out["viol"] = ("size-changed", "stream %d: %d -> %d bytes" % (tid, len(before[tid]), len(data)), {}); return out
            try:
                got = [to_tuple((e.clock, e.mcv, e.payload, e.jumbo)) for e in obs.decode(data)]
            except obs.DecodeError as ex:
                out["viol"] = ("result-not-tiled", "sorted stream does not decode: %s" % ex, {}); return out
            exp = [to_tuple(e) for e in stable_sorted(evs)]
            if got != exp:
                k = next(j for j in range(len(exp)) if j >= len(got) or got[j] != exp[j])
                if sorted(got) != sorted(exp):
                    key = "not-a-permutation"
                elif [g[0] for g in got] != [e[0] for e in exp]:
                    key = "not-sorted"
                else:
                    key = "tie-order-not-stable"
                out["viol"] = (key, "stream %d differs from the stable sort of the original at event %d: got %r expected %r"
                               % (tid, k, got[k] if k < len(got) else None, exp[k]), {"n": n, "need": need}); return out
        # idempotence
        r2 = emu.run_tool(build, "ovnisort", ["-n", str(n), wd], timeout=60, env=env, nofile=32 if wide else None)
        if r2.rc != 0 or r2.sig:
            out["viol"] = ("second-run-fails", "second ovnisort rc=%s sig=%s" % (r2.rc, r2.sig), r2.brief()); return out
        for tid, evs, info in streams:
            p = os.path.join(obs.stream_dir(wd, "L", 1, tid), "stream.obs")
            if open(p, "rb").read() != after[tid]:
                out["viol"] = ("not-idempotent", "a second run changed stream %d" % tid, {}); return out
        rc_ = emu.run_tool(build, "ovnisort", ["-c", wd], timeout=60, env=env, nofile=32 if wide else None)
        if rc_.rc != 0 or rc_.sig:
            out["viol"] = ("check-mode-fails", "ovnisort -c rc=%s after sorting: %s" % (rc_.rc, rc_.err[-200:]), rc_.brief()); return out
        if shift > 0:
            # the emulator's clock arithmetic is signed: a trace that crosses 2^63 ns
            # (292 years) is outside what it replays; ovnisort's own result is judged
            return out
        re_ = emu.emu(_CTX["plain"], wd, ["-l"], timeout=60)
        if not emu.accepted(re_):
            out["viol"] = ("emulator-rejects-sorted", "ovniemu -l rejects the sorted trace: " + emu.last_error(re_), re_.brief())
        return out
    finally:
        shutil.rmtree(wd, ignore_errors=True)


def main(argv):
    chk = core.Check("C16", "exploration", argv)
    plain = chk.build("plain", ["ovnisort", "ovniemu"])
    shim = os.path.join(chk.scratch, "shortio.so")
    chk.cc(shim, [os.path.join(core.VERIF, "drivers", "shortio.c")], plain, extra=["-shared", "-fPIC", "-ldl"], san=[])
    _CTX.update(chk=chk, plain=plain, shortio=shim)
    quick = chk.tier == "quick"
    if not quick:
        _CTX["asan"] = chk.build("asan", ["ovnisort"])
    cases = list(range(400 if quick else 12000))
    if chk.replay:
        cases = [json.load(open(chk.replay))["replay"]["case"]]
    n = ok = fail = ev = reg = bs = fw = sio = 0
    shapes = set()
    for o in core.pmap(run_case, cases, chunksize=2):
        if o.get("skip"):
            continue
        if o["inconclusive"]:
            chk.note_inconclusive(o["inconclusive"]); continue
        n += 1
        ev += o["events"]; reg += o["regions"]; bs += o["before_start"]; fw += o["fail_windows"]; sio += o["shortio"]
        ok += 1 if o["scope"] == "ok" else 0
        fail += 1 if o["scope"] == "fail" else 0
        shapes.add((o["scope"], min(o["need"], 50) // 5, o["n"] >= 10 ** 6))
        if o["viol"]:
            chk.report(o["viol"][0], o["viol"][1], {"case": o["i"], "n": o["n"], "need": o["need"], "observation": o["viol"][2]})
    cov = {"evaluations": n, "distinct_nontrivial": len(shapes),
           "rule": "traces of 1-3 streams: sorted base of 5-1500 uniquely numbered events (marks, bursts, jumbo bursts, many "
                   "equal clocks) with 1-8 OU[ OU] regions of 0-20 events (sorted or not internally) whose place is up to "
                   "2000 events back (now and then older than the first event of the stream); look-back -n from just above twice the needed depth (ring wraps) to 10^6; a quarter of the cases with an LD_PRELOAD shim that makes "
                   "pwrite() transfer 1-64 bytes at a time; in-scope-"
                   "for-failure cases need more than 2n and are run with every look-back from 4 to just under half the depth. distinct_nontrivial = distinct (scope, depth class, default window) "
                   "shapes",
           "samples": [{"scope": "ok", "oracle": "decoded result == Python stable sort by clock of the original events"}],
           "sorted_ok_cases": ok, "must_fail_cases": fail, "must_fail_runs": fw, "cases_under_short_pwrite": sio, "events": ev, "regions": reg,
           "streams_with_region_events_older_than_first_event": bs}
    return chk.finish(cov, assumptions=[
        "tie stability relies on glibc qsort being a merge sort; an unstable result would be reported as a finding",
        "between n/2 and 2n events of look-back nothing is asserted (window capacity is an implementation detail)"])
