"""C17 - mark API end to end.  Programs over ovni_mark_type/label/set/push/
pop on several threads and processes run against the real libovni; the
resulting trace is emulated by the real ovniemu and the rows of type 100+t in
thread.prv / cpu.prv and the .pcf sections are compared with the reference
view (thread: while active; CPU: the running thread).  Misuse and conflicts
must be refused at run time (abort) or in emulation (failure)."""

import json
import os
import shutil
import struct

import core
import emu
import obs
import pv
import refemu
import rt
import viewcmp


def gen_program(chk, i):
    rng = chk.rng(i)
    nproc = rng.choice([1, 1, 2, 3])
    types = {}
    for _ in range(rng.randint(1, 4)):
        t = rng.randint(0, 99)
        # titles and labels are free text: quotes, backslashes, braces, non-ASCII
        tfmt = ["title of %d", 'say "hi" %d', "Norm \\nabla u %d", "{%d}: [x], 100%%", "caf\u00e9 %d"][t % 5]
        lfmt = ["label %d/%d", '"%d"/%d', "a\\b %d/%d", "label %d/%d", "\u00b5s %d/%d"][t % 5]
        types[t] = {"kind": rng.choice(["single", "stack"]), "title": tfmt % t,
                    "labels": {v: lfmt % (t, v) for v in rng.sample(range(1, 40), rng.randint(0, 5))}}
    procs = []
    tid = 700
    ncpu = 0
    for p in range(nproc):
        nth = rng.randint(1, 3 if nproc > 1 else 4)
        threads = []
        for k in range(nth):
            cpus = [ncpu, ncpu + 1]
            ncpu += 2
            if rng.random() < 0.4:
                cpus = cpus + [-1]      # this thread also runs unbound, on the loom's virtual CPU
            ops = []
            # definitions: every thread defines a subset (at least one thread defines each)
            mine = [t for t in types if rng.random() < 0.6 or (p == 0 and k == 0)]
            for t in mine:
                ops.append("mark_type %d %d %s" % (t, 1 if types[t]["kind"] == "stack" else 0, types[t]["title"]))
                for v, lab in types[t]["labels"].items():
                    if rng.random() < 0.7 or (p == 0 and k == 0):
                        ops.append("mark_label %d %d %s" % (t, v, lab))
            cur = rng.choice(cpus) if rng.random() < 0.5 else cpus[0]
            ops.append("ev OHx now %s" % obs.i32(cur, tid, 0).hex())
            state = "running"
            stacks = {t: [] for t in types}
            for _ in range(rng.randint(5, 60)):
                r = rng.random()
                if r < 0.6:
                    t = rng.choice(sorted(types))
                    # 64-bit values too (also ones that only differ above bit 31)
                    wide = [rng.randint(1, 10 ** 6), -rng.randint(1, 1000), 2 ** 32 + rng.randint(1, 9), 3 * 10 ** 9,
                            -(2 ** 35) - rng.randint(0, 5), 2 ** 62 + rng.randint(0, 99)]
                    v = rng.choice(sorted(types[t]["labels"]) + wide) if types[t]["labels"] else rng.choice(wide)
                    if types[t]["kind"] == "single":
                        ops.append("mark_set %d %d" % (t, v))
                    elif stacks[t] and rng.random() < 0.5:
                        ops.append("mark_pop %d %d" % (t, stacks[t].pop()))
                    elif len(stacks[t]) < 30:
                        stacks[t].append(v); ops.append("mark_push %d %d" % (t, v))
                elif r < 0.8:
                    if state == "running":
                        nx = rng.choice(["p", "c"])
                    elif state == "cooling":
                        nx = "p"
                    elif state == "paused":
                        nx = rng.choice(["w", "r"])
                    else:
                        nx = "r"
                    ops.append("ev OH%s now -" % nx)
                    state = {"p": "paused", "c": "cooling", "w": "warming", "r": "running"}[nx]
                elif state in ("running", "cooling", "warming"):
                    cur = rng.choice(cpus)
                    ops.append("ev OAs now %s" % obs.i32(cur).hex())
            if state == "paused" or state == "warming":
                ops.append("ev OHr now -")
            ops.append("ev OHe now -")
            threads.append({"tid": tid, "cpus": cpus, "ops": ops})
            tid += 1
        procs.append({"pid": 40 + p, "threads": threads})
    return {"types": types, "procs": procs, "ncpu": ncpu}


def script_of(prog, p, neg=None):
    pr = prog["procs"][p]
    out = ["proc %d node %d" % (p + 1, pr["pid"])]
    for k, th in enumerate(pr["threads"]):
        out.append("thread")
        out.append("init %d" % th["tid"])
        if p == 0 and k == 0:
            for c in range(prog["ncpu"]):
                out.append("cpu %d %d" % (c, c))
        out.extend(th["ops"])
        out += ["flush", "free", "end"]
    out.append("fini")
    return "\n".join(out) + "\n"


def history_from_streams(tdir):
    """Merged history from the streams libovni wrote, by clock."""
    evs = []
    metas = {}
    for sd in obs.find_streams(tdir):
        meta = json.load(open(os.path.join(sd, "stream.json")))
        key = (meta["ovni"]["loom"], meta["ovni"]["pid"], meta["ovni"]["tid"])
        metas[key] = meta
        for n, e in enumerate(obs.decode_file(os.path.join(sd, "stream.obs"))):
            evs.append((e.clock, key, e.mcv, e.payload, e.jumbo, n))
    evs.sort(key=lambda x: (x[0], x[1], x[5]))
    return evs, metas


_CTX = {}


def run_positive(i):
    chk, drv, plain = _CTX["chk"], _CTX["drv"], _CTX["plain"]
    prog = gen_program(chk, i)
    wd = os.path.join(chk.scratch, "p%d" % i)
    res = {"i": i, "viol": None, "inconclusive": None, "marks": 0, "types": len(prog["types"]),
           "threads": sum(len(p["threads"]) for p in prog["procs"])}
    try:
        os.makedirs(wd)
        for p in range(len(prog["procs"])):
            r = rt.run_script(drv, script_of(prog, p), wd, timeout=60)
            if r.rc in (97, 98):
                raise core.HarnessError("rtdrv: " + r.err[-300:])
            if r.sanitizer or r.rc != 0:
                res["viol"] = ("runtime-refuses-legal-program", "libovni aborted a legal mark program: " + r.err[-300:], r.brief())
                return res
        tdir = os.path.join(wd, "trace")
        try:
            hist, metas = history_from_streams(tdir)
        except (OSError, ValueError, KeyError, obs.DecodeError) as ex:
            res["viol"] = ("trace-unreadable", "what the library wrote for a legal mark program cannot be read back: %s" % ex, {})
            return res
        # ties across threads make the merged order ambiguous
        for a, b in zip(hist, hist[1:]):
            if a[0] == b[0] and a[1] != b[1]:
                res["inconclusive"] = "equal clocks across threads"; return res
        r = emu.emu(plain, tdir, ["-l"], timeout=60)
        if r.timeout:
            res["inconclusive"] = "emulator timeout"; return res
        if not emu.accepted(r):
            res["viol"] = ("emulator-rejects-legal-marks", "ovniemu -l rejected: " + emu.last_error(r), r.brief()); return res
        # reference system from the metadata the runtime wrote
        procs = {}
        for (loom, pid, tid), m in metas.items():
            procs.setdefault(pid, {"pid": pid, "appid": m["ovni"]["app_id"], "threads": []})["threads"].append(tid)
        desc = {"looms": [{"name": "node", "cpus": [(c, c) for c in range(prog["ncpu"])],
                           "procs": [procs[k] for k in sorted(procs)]}]}
        marks = {t: d["kind"] for t, d in prog["types"].items()}
        model = refemu.FullSystem(desc, "O", marks)
        tv, cv = [], []
        for (c, key, mcv, p, j, n) in hist:
            try:
                model.event(key, mcv, p, j)
            except refemu.Reject as ex:
                # the program was legal, the library ran it to the end and the emulator
                # accepted the trace, but what the library wrote is not a legal mark
                # history (mismatched pop, zero value, undeclared type ...)
                res["viol"] = ("written-history-illegal-but-accepted", "the streams libovni wrote hold %s (%s), which the "
                               "emulator accepted" % (mcv, ex), {}); return res
            a = model.thread_view(); a.update(model.model_thread_view())
            b = model.cpu_view(); b.update(model.model_cpu_view())
            tv.append(a); cv.append(b)
        out = pv.Out(tdir)
        clocks = [h[0] for h in hist]
        idx = [k for k in range(len(hist)) if k == len(hist) - 1 or clocks[k + 1] != clocks[k]]
        times = [clocks[k] - clocks[0] for k in idx]
        mtypes = set(100 + t for t in marks) | {2, 4, 6, 1, 3}
        for name, exp in (("thread", tv), ("cpu", cv)):
            d = viewcmp.compare_file(out.prv[name], out.pcf[name], times, [exp[k] for k in idx], mtypes, {4, 6})
            if d:
                ev = hist[idx[d["event_index"]]]
                res["viol"] = ("mark-view:%s:%s" % (name, "mark" if d["type"] >= 100 else "base"),
                               "%s.prv row %d type %d shows %r, expected %r after %s of thread %d"
                               % (name, d["row"], d["type"], d["observed"], d["expected"], ev[2], ev[1][2]), {"diff": str(d)})
                return res
        # .pcf sections
        for name in ("thread", "cpu"):
            pcf = out.pcf[name]
            for t, dsc in prog["types"].items():
                if pcf.title(100 + t) is None or dsc["title"] not in pcf.title(100 + t):
                    res["viol"] = ("mark-pcf-title:" + name, "%s.pcf type %d title %r, registered %r"
                                   % (name, 100 + t, pcf.title(100 + t), dsc["title"]), {}); return res
                # labels registered by at least one thread
                for v, lab in dsc["labels"].items():
                    registered = any(m["ovni"].get("mark", {}).get(str(t), {}).get("labels", {}).get(str(v)) == lab
                                     for m in metas.values())
                    if registered and pcf.label(100 + t, v) != lab:
                        res["viol"] = ("mark-pcf-label:" + name, "%s.pcf type %d value %d label %r, registered %r"
                                       % (name, 100 + t, v, pcf.label(100 + t, v), lab), {}); return res
        res["marks"] = sum(1 for h in hist if h[2][:2] == "OM")
        return res
    finally:
        shutil.rmtree(wd, ignore_errors=True)


NEGATIVES = [
    # (name, thread A ops, thread B ops): one misuse / conflict per run
    ("pop-not-top", ["mark_type 1 1 t", "X", "mark_push 1 5", "mark_pop 1 6"], None),
    ("pop-empty", ["mark_type 1 1 t", "X", "mark_pop 1 6"], None),
    ("pop-differs-above-bit-31", ["mark_type 1 1 t", "X", "mark_push 1 7", "mark_pop 1 4294967303"], None),
    ("value-zero-set", ["mark_type 1 0 t", "X", "mark_set 1 0"], None),
    ("value-zero-push", ["mark_type 1 1 t", "X", "mark_push 1 0"], None),
    ("undefined-type-set", ["mark_type 1 0 t", "X", "mark_set 2 5"], None),
    ("undefined-type-push", ["mark_type 1 1 t", "X", "mark_push 7 5"], None),
    # no mark type defined by anybody in the whole trace
    ("no-type-at-all-set", ["X", "mark_set 2 5"], None),
    ("no-type-at-all-push", ["X", "mark_push 2 5"], None),
    ("no-type-at-all-two-threads", ["X", "mark_set 1 7"], ["X"]),
    ("push-on-single", ["mark_type 1 0 t", "X", "mark_push 1 5"], None),
    ("set-on-stack", ["mark_type 1 1 t", "X", "mark_set 1 5"], None),
    ("type-redefined-in-thread", ["mark_type 1 0 t", "mark_type 1 0 t", "X"], None),
    ("label-redefined-in-thread", ["mark_type 1 0 t", "mark_label 1 3 a", "mark_label 1 3 b", "X"], None),
    ("label-zero", ["mark_type 1 0 t", "mark_label 1 0 a", "X"], None),
    ("label-undefined-type", ["mark_label 1 3 a", "X"], None),
    ("type-out-of-range", ["mark_type 100 0 t", "X"], None),
    ("type-negative", ["mark_type -1 0 t", "X"], None),
    ("empty-title", ["mark_type 1 0 ", "X"], None),
    ("title-conflict", ["mark_type 1 0 one", "X", "mark_set 1 4"], ["mark_type 1 0 two", "X"]),
    ("chantype-conflict", ["mark_type 1 0 t", "X", "mark_set 1 4"], ["mark_type 1 1 t", "X"]),
    ("label-conflict", ["mark_type 1 0 t", "mark_label 1 3 a", "X"], ["mark_type 1 0 t", "mark_label 1 3 b", "X"]),
]
# conflicting strings of particular shapes (one a proper prefix of the other in
# either order, last character, case, length): a comparison that is not an
# exact string comparison lets some of them through
_SHAPES = [("Init phase", "Init"), ("Init", "Init phase"), ("abc", "abd"), ("abc", "Abc"), ("a" * 60, "a" * 59),
           ("x", "xx"), ("phase 1", "phase 10")]
for _k, (_x, _y) in enumerate(_SHAPES):
    NEGATIVES.append(("label-conflict-shape-%d" % _k, ["mark_type 1 0 t", "mark_label 1 3 %s" % _x, "X", "mark_set 1 3"],
                ["mark_type 1 0 t", "mark_label 1 3 %s" % _y, "X"]))
    NEGATIVES.append(("title-conflict-shape-%d" % _k, ["mark_type 1 0 %s" % _x, "X", "mark_set 1 4"], ["mark_type 1 0 %s" % _y, "X"]))
# a conflict among three or four threads, the deviating thread first, in the middle or last
_OK = ["mark_type 1 1 t", "mark_label 1 3 a", "X", "mark_push 1 3", "mark_pop 1 3"]
for _kind, _bad in (("title", ["mark_type 1 1 other", "X"]), ("chantype", ["mark_type 1 0 t", "X"]),
                    ("label", ["mark_type 1 1 t", "mark_label 1 3 b", "X"])):
    for _n in (3, 4):
        for _pos in range(_n):
            _ths = [list(_OK) for _ in range(_n)]
            _ths[_pos] = _bad
            NEGATIVES.append(tuple(["%s-conflict-%dthreads-pos%d" % (_kind, _n, _pos)] + _ths))
# controls: the same shapes without the misuse must be accepted
CONTROLS = [
    ("ctl-agreeing-definitions", ["mark_type 1 0 t", "mark_label 1 3 a", "X", "mark_set 1 3"],
     ["mark_type 1 0 t", "mark_label 1 3 a", "mark_label 1 4 b", "X", "mark_set 1 4"]),
    ("ctl-stack", ["mark_type 1 1 t", "X", "mark_push 1 5", "mark_push 1 5", "mark_pop 1 5", "mark_pop 1 5"], None),
    # values that are multiples of 2^32 are not zero
    ("ctl-multiple-of-2^32", ["mark_type 1 0 t", "X", "mark_set 1 4294967296", "mark_set 1 8589934592"], None),
]


def run_negative(case):
    chk, drv, plain = _CTX["chk"], _CTX["drv"], _CTX["plain"]
    name, a, b = case[:3]
    more = list(case[3:])        # further threads (position of the conflicting one matters)
    wd = os.path.join(chk.scratch, "n-%s" % name)
    res = {"name": name, "viol": None, "where": None}
    try:
        os.makedirs(wd)
        out = ["proc 1 node 40"]
        for k, ops in enumerate([a, b] + more):
            if ops is None:
                continue
            out += ["thread", "init %d" % (900 + k)]
            if k == 0:
                out += ["cpu %d %d" % (c_, c_) for c_ in range(2 + len(more))]
            for o in ops:
                out.append("ev OHx now %s" % obs.i32(k, 900 + k, 0).hex() if o == "X" else o)
            out += ["ev OHe now -", "flush", "free", "end"]
        out.append("fini")
        r = rt.run_script(drv, "\n".join(out) + "\n", wd, timeout=60)
        if r.rc in (97, 98):
            raise core.HarnessError("rtdrv: " + r.err[-300:])
        control = name.startswith("ctl-")
        if r.sanitizer:
            res["viol"] = ("sanitizer:" + core.sanitizer_kind(r.err), "sanitizer report in libovni mark API", r.brief()); return res
        if r.sig == 6 and r.err.strip():
            res["where"] = "runtime"
            if control:
                res["viol"] = ("control-refused:" + name, "runtime aborted a legal program: " + r.err[-200:], r.brief())
            return res
        if r.rc != 0:
            res["viol"] = ("driver-odd-exit:" + name, "rc=%s sig=%s" % (r.rc, r.sig), r.brief()); return res
        e = emu.emu(plain, os.path.join(wd, "trace"), timeout=60)
        if e.sig or e.rc not in (0, 1):
            res["viol"] = ("emulator-crash:" + name, "signal %s" % e.sig, e.brief()); return res
        if emu.accepted(e):
            if not control:
                res["viol"] = ("misuse-not-refused:" + name,
                               "neither libovni nor ovniemu refused the mark misuse/conflict '%s'" % name, e.brief())
        else:
            res["where"] = "emulation"
            if control:
                res["viol"] = ("control-refused:" + name, "emulator rejected a legal program: " + emu.last_error(e), e.brief())
        return res
    finally:
        shutil.rmtree(wd, ignore_errors=True)


def run_looms(i):
    """Marks on several nodes: 2-3 looms, one process each, and the threads carry the SAME thread id on every
    loom (ids are only unique inside a node).  Each thread defines the same mark type and sets (or pushes and
    pops) its own values; the emulator must accept the trace and every thread row must show the values of
    its own thread, in order, in type 100+t."""
    chk, drv, plain = _CTX["chk"], _CTX["drv"], _CTX["plain"]
    rng = chk.rng(i, "looms")
    nl = rng.choice([2, 2, 3])
    t = rng.choice([0, 7, 99, rng.randint(0, 99)])
    kind = rng.choice(["single", "stack"])
    tid = rng.choice([700, 4242, 32768, 4194000])
    wd = os.path.join(chk.scratch, "l%d" % i)
    res = {"i": i, "viol": None}
    want = {}
    try:
        os.makedirs(wd)
        for l in range(nl):
            vals = [1000 * (l + 1) + k for k in range(1, rng.randint(2, 5))]
            want["n%d" % l] = vals
            ops = ["proc 1 n%d %d" % (l, 100 + l), "thread", "init %d" % tid, "cpu 0 0",
                   "mark_type %d %d shared title" % (t, 1 if kind == "stack" else 0),
                   "ev OHx now %s" % obs.i32(0, tid, 0).hex()]
            if kind == "single":
                ops += ["mark_set %d %d" % (t, v) for v in vals]
            else:
                ops += ["mark_push %d %d" % (t, v) for v in vals] + ["mark_pop %d %d" % (t, v) for v in reversed(vals)]
            ops += ["ev OHe now -", "flush", "free", "end", "fini"]
            r = rt.run_script(drv, "\n".join(ops) + "\n", wd, timeout=60)
            if r.rc in (97, 98):
                raise core.HarnessError("rtdrv: " + r.err[-300:])
            if r.sanitizer or r.rc != 0:
                res["viol"] = ("runtime-refuses-legal-program:looms", "libovni aborted a legal mark program: " + r.err[-300:], r.brief())
                return res
        tdir = os.path.join(wd, "trace")
        os.makedirs(os.path.join(tdir, "cfg"), exist_ok=True)
        r = emu.emu(plain, tdir, ["-l"], timeout=60)
        if not emu.accepted(r):
            res["viol"] = ("emulator-rejects-legal-marks:looms", "%d looms whose threads all have id %d, mark type %d: ovniemu -l "
                           "rejected: %s" % (nl, tid, t, emu.last_error(r)), r.brief()); return res
        out = pv.Out(tdir)
        rows = out.row["thread"].threads
        for l in range(nl):
            rr = [k + 1 for k, nm in enumerate(rows) if nm.endswith(".%d" % tid)]
            row = rr[l] if l < len(rr) else None
            got = [v for (r_, t_, ty, v) in out.prv["thread"].lines if r_ == row and ty == 100 + t and v != 0]
            exp = want["n%d" % l] if kind == "single" else want["n%d" % l] + list(reversed(want["n%d" % l]))[1:]
            if got != exp:
                res["viol"] = ("mark-view:thread:looms", "thread row %s of loom n%d shows %s in type %d, its thread set %s"
                               % (row, l, got, 100 + t, exp), {}); return res
        return res
    finally:
        shutil.rmtree(wd, ignore_errors=True)


def main(argv):
    chk = core.Check("C17", "exploration", argv)
    asan = chk.build("asan", ["ovni"])
    plain = chk.build("plain", ["ovniemu"])
    drv = rt.build_rtdrv(chk, asan)
    _CTX.update(chk=chk, drv=drv, plain=plain)
    quick = chk.tier == "quick"
    cases = list(range(120 if quick else 4000))
    if chk.replay:
        cases = [json.load(open(chk.replay))["replay"]["case"]]
    n = marks = 0
    shapes = set()
    for r in core.pmap(run_positive, cases):
        if r["inconclusive"]:
            chk.note_inconclusive(r["inconclusive"]); continue
        n += 1; marks += r["marks"]
        shapes.add((r["types"], r["threads"]))
        if r["viol"]:
            chk.report(r["viol"][0], r["viol"][1], {"case": r["i"], "observation": r["viol"][2]})
    where = {}
    nneg = 0
    if not chk.replay:
        for r in core.pmap(run_negative, NEGATIVES + CONTROLS):
            nneg += 1
            where[r["name"]] = r["where"]
            if r["viol"]:
                chk.report(r["viol"][0], r["viol"][1], {"negative": r["name"], "observation": r["viol"][2]})
    nlooms = 0
    if not chk.replay:
        for r in core.pmap(run_looms, range(24 if chk.tier == "quick" else 400)):
            nlooms += 1
            if r["viol"]:
                chk.report(r["viol"][0], r["viol"][1], {"looms": r["i"], "observation": r["viol"][2]})
    p0 = gen_program(chk, cases[0])
    cov = {"evaluations": n + nneg + nlooms, "multi_loom_programs": nlooms, "distinct_nontrivial": len(shapes) + len(where),
           "rule": "random mark programs (1-3 processes, 1-4 threads, 1-4 types single/stack with labels defined by subsets "
                   "of threads that agree, values incl. negative and unlabeled, interleaved with pause/resume/cool/warm and "
                   "OAs) executed on the ASan+UBSan libovni; the streams the library wrote are merged by clock into the "
                   "history, emulated by ovniemu -l and compared per event for types 100+t (plus base rows) on thread and "
                   "CPU rows; .pcf titles and labels checked. %d single misuses/conflicts (label and title conflicts in "
                   "several string shapes) must be refused at run time or in emulation, %d controls accepted. distinct_nontrivial "
                   "= distinct (types, threads) shapes + negative cases" % (len(NEGATIVES), len(CONTROLS)),
           "samples": [{"types": {str(k): v["kind"] for k, v in p0["types"].items()},
                        "first_ops": p0["procs"][0]["threads"][0]["ops"][:12]}],
           "mark_events_compared": marks, "refused_where": where}
    return chk.finish(cov, assumptions=[
        "the merged history is the events libovni wrote, ordered by their clocks (runs with equal clocks across threads "
        "are inconclusive)", "thread rows track the ACTIVE thread, CPU rows the RUNNING thread (doc/user/runtime/mark.md)"])
