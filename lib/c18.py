"""C18 - event catalogue consistency.  The set listed by `ovnievents` of the
build under test is (1) run event by event in a legal context through the
real emulator, (2) compared with what the emulator accepts over every
three-character code of the printable range in each model (one-event probes),
(3) decoded by ovnidump and compared with an independent implementation of the
description substitution."""

import html
import json
import os
import re
import shutil
import struct

import core
import emu
import histgen
import obs
import refemu

PRINTABLE = [chr(c) for c in range(33, 127)]
MODELCHARS = "O6VDTMKP"
TYPESZ = {"u8": 1, "u16": 2, "u32": 4, "u64": 8, "i8": 1, "i16": 2, "i32": 4, "i64": 8}


def listing(build):
    r = emu.run_tool(build, "ovnievents", [])
    if r.rc != 0 or r.sig:
        return None
    evs = {}
    model = None
    for m in re.finditer(r"identifier \*\*`(.)`\*\*|<pre>(.*?)</pre></a></dt>\s*<dd>(.*?)</dd>", r.out, re.S):
        if m.group(1):
            model = m.group(1); continue
        sig = html.unescape(m.group(2)); desc = html.unescape(m.group(3))
        mcv = sig[:3]
        jumbo = len(sig) > 3 and sig[3] == "+"
        args = []
        am = re.search(r"\((.*)\)", sig)
        if am:
            for a in am.group(1).split(","):
                ty, nm = a.split()
                args.append((ty, nm))
        evs[mcv] = {"mcv": mcv, "model": model, "jumbo": jumbo, "args": args, "desc": desc}
    return evs


def arg_values(rng, args):
    vals = {}
    for ty, nm in args:
        if ty == "str":
            vals[nm] = rng.choice(["label", "a b c", "x" * 20, "%d %s", "", "r\u00e9solution_t\u00e2che", "\u4efb\u52a1 7", "na\u00efve"])
        else:
            bits = TYPESZ[ty] * 8
            if ty[0] == "u":
                vals[nm] = rng.choice([0, 1, 2 ** bits - 1, rng.getrandbits(bits)])
            else:
                vals[nm] = rng.choice([0, 1, -1, -2 ** (bits - 1), 2 ** (bits - 1) - 1, rng.getrandbits(bits - 1)])
    return vals


def pack_args(args, vals):
    out = b""
    for ty, nm in args:
        if ty == "str":
            out += vals[nm].encode() + b"\0"
        else:
            out += struct.pack("<" + {"u8": "B", "u16": "H", "u32": "I", "u64": "Q", "i8": "b", "i16": "h", "i32": "i",
                                      "i64": "q"}[ty], vals[nm])
    return out


def cfmt(fmt, ty, val):
    """Minimal printf for the formats the descriptions use; None if the
    format is not understood (then the case is not judged)."""
    m = re.match(r"^%(#?)(l{0,2}|h{0,2})([duxs])$", fmt)
    if not m:
        return None
    alt, _, conv = m.groups()
    if conv == "s":
        return str(val)
    if conv in "du":
        return "%d" % val
    if conv == "x":
        bits = 64
        v = val & (2 ** bits - 1)
        s = "%x" % v
        return ("0x" + s) if (alt and v != 0) else s
    return None


def expected_description(ev, vals):
    types = dict((nm, ty) for ty, nm in ev["args"])
    out = ""
    d = ev["desc"]
    i = 0
    while i < len(d):
        if d[i] != "%":
            out += d[i]; i += 1; continue
        if d[i + 1] == "%":
            out += "%"; i += 2; continue
        j = d.index("{", i)
        k = d.index("}", j)
        fmt = d[i:j]
        name = d[j + 1:k]
        ty = types[name]
        if fmt == "%":
            s = str(vals[name])
        else:
            s = cfmt(fmt, ty, vals[name])
            if s is None:
                return None
        out += s
        i = k + 1
    return out


# -- contexts for every listed event -------------------------------------------
def context_for(ev, sp, rng):
    """(prologue events, the event, epilogue events) as (mcv, payload, jumbo),
    all on one thread that is already Running on CPU 0 of a 2-CPU loom with a
    second live thread (tid 11)."""
    mcv = ev["mcv"]
    s = sp["events"].get(mcv)
    vals = arg_values(rng, ev["args"])
    pl = pack_args(ev["args"], vals)
    pro, epi = [], []
    if s is None:
        return pro, (mcv, pl, ev["jumbo"]), epi, vals
    op = s["op"]
    if op == "pop":
        pro = [(s["partner"], b"", False)]
    elif op == "push":
        epi = [(s["partner"], b"", False)]
    elif op == "set" and s.get("initial"):
        pro = [(mcv[:2] + "r", b"", False)]
    elif op == "special":
        if mcv in ("OHx",):
            return None           # used by the prologue itself; judged there
        if mcv == "OHe":
            return None
        if mcv == "OHr":
            pro = [("OHp", b"", False)]
        elif mcv == "OHw":
            pro = [("OHp", b"", False)]; epi = [("OHr", b"", False)]
        elif mcv == "OHp":
            epi = [("OHr", b"", False)]
        elif mcv == "OHc":
            epi = [("OHp", b"", False), ("OHr", b"", False)]
        elif mcv == "OAs":
            # the other CPU, or the CPU the thread is on already (nothing changes)
            c = rng.choice([1, 0])
            vals = {"cpu": c}; pl = obs.i32(c)
        elif mcv == "OAr":
            # the target is a thread of the same process, or of the second or third process of the loom
            tgt = rng.choice([11, 12, 13])
            vals = {"cpu": 1, "tid": tgt}; pl = obs.i32(1, tgt)
        elif mcv == "OHC":
            pass
        elif mcv in ("OM[", "OM]", "OM="):
            # values beyond 32 bits too: the arguments are 64-bit
            v = rng.choice([rng.randint(1, 10 ** 6), 5 * 10 ** 9, 2 ** 62 + 12345, -(2 ** 40) - 3, -7, 2 ** 63 - 1])
            ty = 2 if mcv != "OM=" else 1
            vals = {"value": v, "type": ty}; pl = obs.i64(v) + obs.i32(ty)
            if mcv == "OM]":
                pro = [("OM[", pl, False)]
            elif mcv == "OM[":
                epi = [("OM]", pl, False)]
        elif mcv == "OF]":
            pro = [("OF[", b"", False)]
        elif mcv == "OF[":
            epi = [("OF]", b"", False)]
        elif mcv[1] == "Y":
            vals = {"typeid": 77, "label": vals["label"]}
            pl = obs.u32(77) + vals["label"].encode() + b"\0"
        elif mcv[1] == "T":
            mc = mcv[0]
            mk = lambda *a: obs.u32(*a)
            typ = (mc + "Yc", obs.u32(5) + b"ty\0", True)
            par = mcv == "VTC"
            cre = (mc + "Tc", mk(9, 5), False)
            body = 0
            if mc == "V":
                x = lambda v: (mc + "T" + v, mk(9, body), False)
            else:
                x = lambda v: (mc + "T" + v, mk(9), False)
            v = mcv[2]
            if v in "cC":
                pro = [typ]; vals = {"taskid": 9, "typeid": 5}; pl = mk(9, 5)
            else:
                vals = {"taskid": 9, "bodyid": 0} if mc == "V" else {"taskid": 9}
                pl = mk(9, 0) if mc == "V" else mk(9)
                if v == "x":
                    pro = [typ, cre]; epi = [x("e")]
                elif v == "e":
                    pro = [typ, cre, x("x")]
                elif v == "p":
                    pro = [typ, cre, x("x")]; epi = [x("r"), x("e")]
                elif v == "r":
                    pro = [typ, cre, x("x"), x("p")]; epi = [x("e")]
    return pro, (mcv, pl, ev["jumbo"]), epi, vals


def base_trace(wd, events, require_all=True, phy=(0, 1), others_require=True, out_tid=None, other_events=()):
    """Thread 10 runs `events` between OHx and OHe; thread 11 (same process) and
    threads 12 and 13 (two more processes of the loom) are alive."""
    req = {n: v for (n, v) in histgen.REQUIRE.values()} if require_all else None
    extra = {"ovni": {"mark": {"1": {"title": "s", "chan_type": "single"}, "2": {"title": "k", "chan_type": "stack"}}}}
    t = 100
    h10 = [(t, "OHx", obs.i32(0, 10, 0), False)]
    for (m, p, j) in events:
        t += 2
        h10.append((t, m, p, j))
    t += 2
    h10.append((t, "OHe", b"", False))
    # out_tid: that thread is switched out by the kernel (KCO) while thread 10 emits its events
    def life(tid_, end):
        h = [(101, "OHx", obs.i32(-1, tid_, 0), False)]
        if tid_ == out_tid:
            h += [(102, "KCO", b"", False), (end - 1, "KCI", b"", False)]
        return h + [(end, "OHe", b"", False)]
    h11 = life(11, t + 5)
    # other_events: what thread 11 (same process) does right after it starts, before thread 10's events
    if other_events:
        h11[1:1] = [(101, m, p, j) for (m, p, j) in other_events]
    shutil.rmtree(wd, ignore_errors=True)
    obs.write_stream(wd, "L", 1, 10, obs.thread_meta(10, 1, "L", cpus=[(0, phy[0]), (1, phy[1])], require=req, extra=extra), h10)
    # a model is enabled when some thread requires it: the other threads may well require the base model only
    oreq = req if others_require else None
    obs.write_stream(wd, "L", 1, 11, obs.thread_meta(11, 1, "L", require=oreq, extra=extra), h11)
    for pid_, tid_ in ((2, 12), (3, 13)):
        h = life(tid_, t + 5 + tid_)
        obs.write_stream(wd, "L", pid_, tid_, obs.thread_meta(tid_, pid_, "L", app_id=pid_, require=oreq, extra=extra), h)
    os.makedirs(os.path.join(wd, "cfg"), exist_ok=True)


_CTX = {}


def run_listed(mcv):
    chk, build, evs, sp = _CTX["chk"], _CTX["plain"], _CTX["evs"], _CTX["spec"]
    ev = evs[mcv]
    res = {"mcv": mcv, "viol": [], "judged": 0}
    for draw in range(12 if mcv in ("OAs", "OAr") else 3):
        _run_listed_once(chk, build, ev, sp, mcv, draw, res)
    # Nanos6 task execute/end also in the legacy shape that the model still accepts
    # (with a warning): a child run inline while the parent body is running and
    # another region is open on top
    if mcv in ("6Tx", "6Te"):
        _run_listed_once(chk, build, ev, sp, mcv, 9, res, state="nested")
    # a long run of the same event (bursts of identical events, a loop entering and
    # leaving one region): what is legal once stays legal the 200th time
    _run_listed_repeated(chk, build, ev, sp, mcv, res)
    # the thread states in which the model accepts events besides Running
    need = sp["models"].get(ev["model"], {}).get("need")
    states = {"active": ["cooling", "warming"], "any": ["cooling", "warming", "paused"]}.get(need, [])
    if ev["model"] != "O":
        for k, st in enumerate(states):
            _run_listed_once(chk, build, ev, sp, mcv, 3 + k, res, state=st)
    elif mcv in ("OF[", "OF]", "OU[", "OU]"):
        # the library writes its flush markers wherever the buffer fills or ovni_flush is called, also while
        # the thread is paused, cooling or warming; sorting regions are ignored in every state
        for k, st in enumerate(["cooling", "warming", "paused"]):
            _run_listed_once(chk, build, ev, sp, mcv, 3 + k, res, state=st)
    return res


STATE_CTX = {"cooling": ([("OHc", b"", False)], []),
             "warming": ([("OHp", b"", False), ("OHw", b"", False)], [("OHr", b"", False)]),
             "paused": ([("OHp", b"", False)], [("OHr", b"", False)])}


def require_kernel_ok(state):
    return state is None


def _run_listed_once(chk, build, ev, sp, mcv, draw, res, state=None):
    rng = chk.rng(sum(ord(c) << (8 * k) for k, c in enumerate(mcv)) + 1000003 * draw, "ctx")
    ctx = context_for(ev, sp, rng)
    if ctx is None:
        return res
    pro, e, epi, vals = ctx
    if state == "nested":
        mk = obs.u32
        typ = ("6Yc", mk(5) + b"ty\0", True)
        pro = [typ, ("6Tc", mk(8, 5), False), ("6Tc", mk(9, 5), False), ("6Tx", mk(8), False), ("6U[", b"", False)]
        if mcv == "6Tx":
            epi = [("6Te", mk(9), False), ("6U]", b"", False), ("6Te", mk(8), False)]
        else:
            pro = pro + [("6Tx", mk(9), False)]
            epi = [("6U]", b"", False), ("6Te", mk(8), False)]
        vals = {"taskid": 9}
        e = (mcv, mk(9), False)
    elif state:
        pro = STATE_CTX[state][0] + pro
        epi = epi + STATE_CTX[state][1]
    wd = os.path.join(chk.scratch, "l-%d" % os.getpid())
    try:
        # physical CPU ids need not equal the logical indices
        phy = [(0, 1), (4, 5), (1, 0), (7, 2)][(draw + len(pro)) % 4] if not state else (0, 1)
        # a remote affinity event may name a thread the kernel has switched out
        other = ()
        if mcv == "VTx" and state is None and draw % 3 == 2:
            # a task that has run and ended on another thread of the process runs again here (taskiter)
            mk = obs.u32
            other = (("VYc", mk(5) + b"ty\0", True), ("VTc", mk(9, 5), False), ("VTx", mk(9, 0), False), ("VTe", mk(9, 0), False))
            pro = []
        out_tid = vals.get("tid") if (mcv == "OAr" and draw % 2 == 1 and require_kernel_ok(state)) else None
        base_trace(wd, pro + [e] + epi, phy=phy, others_require=(draw % 3 != 2) or out_tid is not None or bool(other), out_tid=out_tid,
                   other_events=other)
        r = emu.emu(build, wd)
        res["judged"] += 1
        if r.sig or r.rc not in (0, 1):
            res["viol"].append(("listed-event-crash:" + mcv, "emulator crashed on listed event %s" % mcv, r.brief()))
        elif not emu.accepted(r):
            res["viol"].append(("listed-event-rejected:" + mcv + (":" + state if state else ""),
                                "listed event %s rejected in a legal context%s: %s"
                                % (mcv, " (thread %s)" % state if state else "", emu.last_error(r)), r.brief()))
        # decoding
        rd = emu.run_tool(build, "ovnidump", [wd])
        want = expected_description(ev, vals)
        line = None
        for l in rd.out.split("\n"):
            f = l.split(None, 3)
            if len(f) >= 3 and f[1] == mcv and f[2].endswith("thread.10"):
                # several lines may carry the same MCV (prologue); take the one of our event
                line = l
                if want is not None and l.endswith(want):
                    break
        if want is not None:
            res["judged"] += 1
            got = line.split("thread.10", 1)[1].strip() if line else None
            # ovnidump prints two blanks before the description; compare stripped
            if got is None or got != want.strip():
                res["viol"].append(("dump-decoding:" + mcv, "ovnidump prints %r for %s with %s, description gives %r"
                                    % (got, mcv, vals, want), {"mcv": mcv, "vals": vals}))
        return res
    finally:
        shutil.rmtree(wd, ignore_errors=True)


def _run_listed_repeated(chk, build, ev, sp, mcv, res):
    s_ = sp["events"].get(mcv)
    rng = chk.rng(sum(ord(c) << (8 * k) for k, c in enumerate(mcv)), "rep")
    ctx = context_for(ev, sp, rng)
    if ctx is None:
        return
    pro, e, epi, vals = ctx
    op = s_["op"] if s_ else None
    if mcv == "OB.":
        unit, pre, post = [e], [], []
    elif mcv in ("OU[", "OF["):
        unit, pre, post = [e, (mcv[:2] + "]", b"", False)], [], []
    elif mcv == "OM=":
        unit, pre, post = [e], [], []            # the same value set again and again
    elif mcv in ("OM[", "OM]"):
        # the same value pushed several times in a row (a recursive function), then popped
        push = ("OM[", e[1], False)
        pop = ("OM]", e[1], False)
        k = rng.choice([2, 3, 20])
        unit, pre, post = [push] * k + [pop] * k, [], []
    elif op == "push":
        unit, pre, post = [e] + epi, pro, []
    elif op == "ign":
        unit, pre, post = [e], pro, epi
    else:
        return
    n = rng.choice([101, 130, 257])
    wd = os.path.join(chk.scratch, "r-%d" % os.getpid())
    try:
        base_trace(wd, pre + unit * n + post)
        r = emu.emu(build, wd, timeout=60)
        res["judged"] += 1
        res["repeated"] = res.get("repeated", 0) + 1
        if r.timeout:
            return
        if r.sig or r.rc not in (0, 1):
            res["viol"].append(("listed-event-crash:%s:repeated" % mcv, "emulator crashed on %d repetitions of %s" % (n, mcv), r.brief()))
        elif not emu.accepted(r):
            res["viol"].append(("listed-event-rejected:%s:repeated" % mcv, "%d repetitions of the listed event %s (2 ns apart) are "
                                "rejected although one is accepted: %s" % (n, mcv, emu.last_error(r)), r.brief()))
    finally:
        shutil.rmtree(wd, ignore_errors=True)


def run_dump_soup(i):
    """ovnidump decodes without emulating, so any sequence can be dumped: a
    soup of listed events with PRNG arguments and unlisted codes, each often
    repeated back to back, in two streams.  Every line must carry the
    description of its own event, every unlisted code UNKNOWN."""
    chk, build, evs = _CTX["chk"], _CTX["plain"], _CTX["evs"]
    rng = chk.rng(i, "soup")
    names = sorted(evs)
    judg = [n for n in names if not evs[n]["jumbo"] or all(t in TYPESZ or t == "str" for t, _ in evs[n]["args"])]
    res = {"viol": [], "judged": 0, "unknown_lines": 0, "repeats": 0}
    wd = os.path.join(chk.scratch, "s-%d" % os.getpid())
    # a few codes dominate one soup so that repeats and alternations are common
    pool = []
    for _ in range(rng.randint(2, 6)):
        if rng.random() < 0.5:
            pool.append(("L", rng.choice(judg)))
        else:
            near = rng.choice(judg)
            code = near[:2] + rng.choice(PRINTABLE) if rng.random() < 0.7 else near[0] + rng.choice(PRINTABLE) + rng.choice(PRINTABLE)
            pool.append(("L", code) if code in evs else ("U", code))
    try:
        expect = {}
        t = 100
        streams = {10: [], 11: []}
        for tid in streams:
            t += 1
            streams[tid].append((t, "OHx", obs.i32(0, tid) + obs.u64(0), False))
        for _ in range(rng.randint(10, 60)):
            kind, code = rng.choice(pool) if rng.random() < 0.8 else ("L", rng.choice(judg))
            tid = rng.choice([10, 11])
            for _r in range(rng.choice([1, 1, 2, 3])):
                t += 1
                if kind == "L":
                    ev = evs[code]
                    vals = arg_values(rng, ev["args"])
                    pl = pack_args(ev["args"], vals)
                    if ev["jumbo"] and ev["args"] and ev["args"][-1][0] != "str":
                        pl = pl + b"extra\0"
                    streams[tid].append((t, code, pl, ev["jumbo"]))
                    expect[t] = (code, expected_description(ev, vals), vals)
                else:
                    pl = bytes(rng.getrandbits(8) for _ in range(rng.choice([0, 0, 4, 8, 12, 16])))
                    streams[tid].append((t, code, pl, False))
                    expect[t] = (code, "UNKNOWN", None)
                if _r:
                    res["repeats"] += 1
        for tid in streams:
            t += 1
            streams[tid].append((t, "OHe", b"", False))
        shutil.rmtree(wd, ignore_errors=True)
        for tid in streams:
            obs.write_stream(wd, "L", 1, tid, obs.thread_meta(tid, 1, "L", cpus=[(0, 0)] if tid == 10 else None), streams[tid])
        rd = emu.run_tool(build, "ovnidump", [wd])
        if rd.sig or rd.timeout:
            res["viol"].append(("dump-crash", "ovnidump died on a soup of listed and unlisted codes", rd.brief()))
            return res
        lines = []
        for l in rd.out.split("\n"):
            f = l.split(None, 3)
            if len(f) < 3 or not f[0].lstrip("-").isdigit():
                continue
            lines.append((int(f[0]), f[1], f[3].strip() if len(f) > 3 else ""))
        # clocks are printed relative to an origin of the tool's choosing: anchor on the last line
        t0 = (t - lines[-1][0]) if lines else 0
        seen = dict((c + t0, (m, d)) for c, m, d in lines)
        for t, (code, want, vals) in sorted(expect.items()):
            if want is None:
                continue
            res["judged"] += 1
            res["unknown_lines"] += 1 if vals is None else 0
            got = seen.get(t)
            if got is None or got[0] != code:
                res["viol"].append(("dump-line-missing", "no ovnidump line for %s at clock %d (found %r)" % (code, t, got),
                                    {"case": i})); break
            if got[1] != want.strip():
                if vals is None:
                    res["viol"].append(("dump-unlisted-described:" + code[:2], "ovnidump describes the unlisted code %s as %r"
                                        % (code, got[1]), {"case": i, "code": code}))
                else:
                    res["viol"].append(("dump-decoding-in-sequence:" + code, "ovnidump prints %r for %s with %s in a sequence, "
                                        "description gives %r" % (got[1], code, vals, want), {"case": i, "mcv": code}))
                break
        return res
    finally:
        shutil.rmtree(wd, ignore_errors=True)


def run_probe(arg):
    """One-event probes of a batch of codes; returns list of (code, payload
    length, accepted, warned)."""
    chk, build = _CTX["chk"], _CTX["plain"]
    codes = arg
    wd = os.path.join(chk.scratch, "p-%d" % os.getpid())
    out = []
    try:
        for code, pl in codes:
            base_trace(wd, [(code, pl, False)])
            r = emu.emu(build, wd)
            if r.timeout:
                out.append((code, len(pl), None, False)); continue
            warned = ("WARN" in r.err and code in r.err) or "ignoring old" in r.err or "got old" in r.err
            out.append((code, len(pl), emu.accepted(r), warned))
        return out
    finally:
        shutil.rmtree(wd, ignore_errors=True)


def main(argv):
    chk = core.Check("C18", "exploration", argv)
    plain = chk.build("plain", ["ovniemu", "ovnidump", "ovnievents"])
    evs = listing(plain)
    if evs is None:
        # no listing at all: every code the handlers recognise is unlisted
        chk.report("listing:ovnievents-fails", "ovnievents exits with a failure: there is no listing to compare with", {})
        return chk.finish({"evaluations": 1, "distinct_nontrivial": 1, "rule": "ovnievents run once", "samples": []})
    sp = refemu.spec()
    _CTX.update(chk=chk, plain=plain, evs=evs, spec=sp)
    quick = chk.tier == "quick"
    # 0. listing vs frozen table.  A code that appears in or disappears from the
    # listing is not a violation by itself (the property relates the listing to
    # the handlers, which parts 1 and 2 decide); it is recorded in the evidence.
    # A changed signature of a known event is reported: the payload shape is
    # what the instrumented runtimes write.
    listing_missing = sorted(set(sp["events"]) - set(evs))
    listing_new = sorted(set(evs) - set(sp["events"]))
    for mcv in sorted(set(evs) & set(sp["events"])):
        f = sp["events"][mcv]
        if [list(a) for a in evs[mcv]["args"]] != [list(a) for a in f["args"]] or evs[mcv]["jumbo"] != f["jumbo"]:
            chk.report("listing:signature-changed:" + mcv, "%s is now declared with arguments %s (documented: %s)"
                       % (mcv, evs[mcv]["args"], f["args"]), {"mcv": mcv})
    # 1. every listed event once in a legal context + 3. decoding
    judged = 0
    for res in core.pmap(run_listed, sorted(evs), chunksize=4):
        judged += res["judged"]
        for key, what, o in res["viol"]:
            chk.report(key, what, o)
    # 4. ovnidump over soups of listed and unlisted codes
    soup_j = soup_u = soup_r = 0
    for res in core.pmap(run_dump_soup, list(range(300 if quick else 6000)), chunksize=4):
        soup_j += res["judged"]; soup_u += res["unknown_lines"]; soup_r += res["repeats"]
        for key, what, o in res["viol"]:
            chk.report(key, what, o)
    judged += soup_j
    # 2. exhaustive code probes
    listed = set(evs)
    codes = []
    for m in MODELCHARS:
        for c in PRINTABLE:
            for v in PRINTABLE:
                code = m + c + v
                if code in listed:
                    continue
                codes.append(code)
    rng = chk.rng(0, "probe")
    if quick:
        # all codes in categories that exist + a sample of the rest
        cats = set(e[:2] for e in listed)
        near = [c for c in codes if c[:2] in cats]
        far = [c for c in codes if c[:2] not in cats]
        codes = near + rng.sample(far, 1000)
        shaped = set(rng.sample(near, min(len(near), 1500))) | set(c for c in near if c[:2] == "OM")
    else:
        shaped = set(codes)
    work = []
    for code in codes:
        work.append((code, b""))
        if code not in shaped:
            continue
        # payload shapes of listed events of the same category
        shapes = set()
        for e in evs.values():
            if e["mcv"][:2] == code[:2] and e["args"] and not e["jumbo"]:
                n = sum(TYPESZ[t] for t, _ in e["args"] if t != "str")
                if 2 <= n <= 16:
                    shapes.add(n)
        for n in sorted(shapes):
            work.append((code, bytes([1] + [0] * (n - 1))))
        if code[:2] == "OM":
            # mark events name a declared mark type: probe with the single (1) and the stack (2) type of the base trace
            work.append((code, obs.i64(5) + obs.i32(1)))
            work.append((code, obs.i64(5) + obs.i32(2)))
    batches = [work[i:i + 40] for i in range(0, len(work), 40)]
    nprobe = 0
    accepted_unlisted = {}
    for res in core.pmap(run_probe, batches):
        for code, plen, acc, warned in res:
            if acc is None:
                chk.note_inconclusive("probe timeout"); continue
            nprobe += 1
            if acc:
                carve = (code[0] == "O" and code[1] in "BU") or warned
                if not carve:
                    accepted_unlisted[code] = plen
    for code, plen in sorted(accepted_unlisted.items()):
        chk.report("unlisted-accepted:" + code, "the emulator accepts %s (payload %d bytes) which ovnievents does not list"
                   % (code, plen), {"code": code, "payload_len": plen})
    cov = {"evaluations": judged + nprobe, "distinct_nontrivial": len(evs) + len(set(c for c, _ in work)),
           "rule": "(1) every event listed by the build's ovnievents run once in a legal context constructed from the "
                   "frozen table (partner first for leave events, type/task created for task events, mark types declared), "
                   "also with the thread Cooling / Warming (/ Paused) for the models that accept events in those states, and "
                   "enter/leave pairs, ignored events and bursts repeated 101-257 times 2 ns apart; "
                   "(2) every unlisted three-character code over the 94 printable characters in each of the eight models "
                   "as a one-event probe (empty payload and the payload sizes of listed events of that category), accepted "
                   "only inside the carve-outs (OB?, OU?, legacy codes accepted with a warning); (3) ovnidump line of each "
                   "listed event with PRNG argument values vs an independent %{name}/%fmt{name} substitution; (4) ovnidump over "
                   "soups of listed events and unlisted codes, often repeated back to back, in two streams: each line must "
                   "describe its own event, unlisted codes UNKNOWN. "
                   "distinct_nontrivial = listed events + distinct unlisted codes probed",
           "samples": [{"listed": len(evs), "probed_codes": len(set(c for c, _ in work))},
                       {"probe": "6TC", "expected": "accepted only with a warning naming it as old"}],
           "listed_events": len(evs), "listed_not_in_frozen_table": listing_new, "frozen_table_not_listed": listing_missing,
           "listed_judgements": judged, "dump_soup_lines_judged": soup_j,
           "dump_soup_unlisted_lines": soup_u, "dump_soup_back_to_back_repeats": soup_r, "probe_runs": nprobe,
           "exhaustive": not quick, "exhaustive_scope": "8 models x 94 x 94 codes minus the listed ones"}
    return chk.finish(cov, assumptions=[
        "legal contexts come from spec/events.json (frozen); an event listed but unknown to the table is run bare",
        "descriptions using printf formats other than %d %u %x %#llx %s are not judged"])
