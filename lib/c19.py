"""C19 - tools are total.  Structure-aware mutation of valid traces; each
mutant goes through ovniemu, ovnidump, ovnitop and ovnisort built with
ASan+UBSan and the exact-size heap stream buffer (hook H1).  A signal, an exit
status other than 0/1, a sanitizer report or a (twice confirmed) hang is a
violation."""

import json
import os
import random
import re
import shutil
import struct

import core
import emu
import histgen
import obs
import tracegen
import c12

TOOLS = ["ovniemu", "ovnidump", "ovnitop", "ovnisort"]
ENV = {"OVNI_VERIF_HEAPBUF": "1"}


def ev_offsets(raw):
    """(offset, length) of each event of a VALID stream."""
    offs = []
    for e in obs.decode(raw):
        offs.append((e.off, len(e.raw)))
    return offs


def stream_mutants(rng, base, key, limit, rot=0):
    evs = c12.stream_events(base, key)
    raw = obs.encode_stream(evs)
    offs = ev_offsets(raw)
    muts = []

    def put(what, data):
        muts.append(("obs:" + what, key, bytes(data)))

    n = len(raw)
    # flags nibbles
    for (o, l) in offs:
        for fl in (0x10 | (raw[o] & 0x0f), raw[o] | 0x20, raw[o] | 0x80, 0x1f, 0x10, 0x13, 0xff, (raw[o] & 0xf0) | 0x0f,
                   (raw[o] & 0xf0) | 0x01, raw[o] & 0xf0):
            if fl != raw[o]:
                r = bytearray(raw); r[o] = fl
                put("flags@%d=0x%02x" % (o, fl), r)
    # jumbo size fields
    for (o, l) in offs:
        if raw[o] & 0x10:
            remaining = n - (o + 16)
            for sz in (0, 1, 2, 3, 4, max(0, remaining - 1), remaining, remaining + 1, 2 ** 31 - 16, 2 ** 31 - 1,
                       2 ** 31, 2 ** 31 + 5, 2 ** 32 - 17, 2 ** 32 - 16, 2 ** 32 - 1, 0x7ffffff0):
                r = bytearray(raw); struct.pack_into("<I", r, o + 12, sz & 0xffffffff)
                put("jumbosize@%d=%d" % (o, sz), r)
    # a jumbo header as the very last 12..15 bytes (size field beyond the end)
    for tail in (12, 13, 15):
        r = bytearray(raw) + struct.pack("<B3sQ", 0x13, b"VYc", evs[-1][0])[:12] + b"\x01\x02\x03"[:tail - 12]
        put("trailing-jumbo-header+%d" % tail, r)
    # truncation inside the last two events
    if len(offs) >= 2:
        for k in range(offs[-2][0], n):
            put("trunc@%d" % k, raw[:k])
    # payload shapes
    for k, (c, m, p, j) in enumerate(evs):
        for ln in (0, 2, 3, 4, 7, 8, 12, 16):
            if ln != len(p) or j:
                e = list(evs); e[k] = (c, m, bytes((17 * i + 3) & 0xff for i in range(ln)), False)
                put("payload:%s->%d" % (m, ln), obs.encode_stream(e))
        if j:
            for data in (b"", b"\x01", b"\x01\x00\x00", b"\x01\x00\x00\x00", b"\x09\x00\x00\x00" + b"A" * 40,
                         b"\x00\x00\x00\x00x\x00", b"\x05\x00\x00\x00" + b"B" * 5000):
                e = list(evs); e[k] = (c, m, data, True)
                put("jumbodata:%s:%d" % (m, len(data)), obs.encode_stream(e))
        for b3 in (b"\x00\x00\x00", b"\xff\xff\xff", m[:1].encode() + b"\x00\xff", b"O\xffx"):
            e = list(evs); e[k] = (c, b3, p, j)
            put("mcv:%r" % b3, obs.encode_stream(e))
        for nc in (0, 2 ** 63, 2 ** 64 - 1, 2 ** 63 - 1):
            e = list(evs); e[k] = (nc, m, p, j)
            put("clock=%d" % nc, obs.encode_stream(e))
    # an event without any payload right after a jumbo event, for every event code that
    # reads a payload (state left over from the previous event must not matter)
    models = [m_ for m_ in "V6" if m_ in base["enabled"]]
    codes = [mc + "Yc" for mc in models] + [m_ for m_ in sorted(c12.SIZE_CHECKED) if m_[0] in base["enabled"] or m_[0] == "O"]
    jpos = [k for k, e in enumerate(evs) if e[3]]
    for k in jpos[:4]:
        for code in codes:
            e = list(evs[:k + 1]) + [(evs[k][0], code, b"", False)] + list(evs[k + 1:])
            put("bare-after-jumbo:%s" % code, obs.encode_stream(e))
            # the same with payload-less events of another kind in between
            e = list(evs[:k + 1]) + [(evs[k][0], "OB.", b"", False), (evs[k][0], code, b"", False)] + list(evs[k + 1:])
            put("bare-after-jumbo+gap:%s" % code, obs.encode_stream(e))
    # index and id fields at the edges of what the metadata declares
    loom = [l for l in base["desc"]["looms"] if l["name"] == key[0]][0]
    ncpus = len(loom["cpus"])
    tids = sorted(t for l in base["desc"]["looms"] for p_ in l["procs"] for t in p_["threads"])
    cpuvals = [ncpus - 1, ncpus, ncpus + 1, -1, -2, 2 ** 31 - 1, -2 ** 31]
    tidvals = tids + [0, -1, max(tids) + 1, 2 ** 31 - 1]
    nfield = 0
    for k, (c, m, p, j) in enumerate(evs):
        if m not in ("OHx", "OAs", "OAr") or nfield > 60:
            continue
        for cv in cpuvals:
            e = list(evs); e[k] = (c, m, struct.pack("<i", cv) + p[4:], j)
            put("field:cpu:%s=%d" % (m, cv), obs.encode_stream(e)); nfield += 1
        if m in ("OHx", "OAr") and len(p) >= 8:
            for tv in tidvals:
                e = list(evs); e[k] = (c, m, p[:4] + struct.pack("<i", tv) + p[8:], j)
                put("field:tid:%s=%d" % (m, tv), obs.encode_stream(e)); nfield += 1
    # a remote affinity event naming a thread of the trace that is dead or has not started
    for k in (1, len(evs) - 1):
        for tv in tids:
            for cv in (0, ncpus - 1):
                e = list(evs[:k]) + [(evs[k - 1][0], "OAr", struct.pack("<ii", cv, tv), False)] + list(evs[k:])
                put("field:remote-affinity:%d" % k, obs.encode_stream(e))
    # a type-create jumbo with short / unterminated data as the LAST event of
    # the stream (any over-read then leaves the loaded stream)
    models = [m for m in "V6" if m in base["enabled"]]
    for k in range(1, len(evs), max(1, len(evs) // 6)):
        for mc in models:
            for data in (b"", b"\x07", b"\x07\x00", b"\x07\x00\x00", b"\x07\x00\x00\x00", b"\x07\x00\x00\x00ABCD",
                         b"\x07\x00\x00\x00" + b"Z" * 300):
                e = list(evs[:k]) + [(evs[k - 1][0], mc + "Yc", data, True)]
                put("last-typecreate:%s:%d" % (mc, len(data)), obs.encode_stream(e))
    # every payload-reading event with every short payload as the LAST event
    k = max(1, len(evs) // 2)
    for m in sorted(c12.SIZE_CHECKED) + ["OHC", "OCn", "OB.", "OF["]:
        if m[0] not in base["enabled"] and m[0] != "O":
            continue
        for ln in (0, 2, 3, 4, 6, 7, 8, 11, 12):
            e = list(evs[:k]) + [(evs[k - 1][0], m, bytes(range(1, ln + 1)), False)]
            put("last-event:%s:%d" % (m, ln), obs.encode_stream(e))
    # page-multiple sizes (mmap has no slack then)
    for pages in (1, 2):
        tgt = pages * 4096
        if n < tgt:
            pad = tgt - n
            r = bytearray(raw)
            while len(r) + 12 <= tgt:
                r += obs.encode(evs[-1][0], "OB.")
            put("pagesize-valid+tail%d" % (tgt - len(r)), r + b"\x13" * (tgt - len(r)))
    # random byte noise
    for _ in range(40):
        r = bytearray(raw)
        for _ in range(rng.choice([1, 2, 8])):
            r[rng.randrange(8, n)] = rng.getrandbits(8)
        put("noise", r)
    put("empty", b"")
    put("header-only", raw[:8])
    put("short-header", raw[:5])
    out = stratify(rng, muts, limit)
    # well-formed string arguments whose decoded description ends around the 1024 bytes the dump tool
    # formats an event into: every label length from 950 to 1030 (quick tier: one length in four, the
    # residue rotating with the base trace)
    muts = []
    jk = [k for k, e in enumerate(evs) if e[3]]
    if jk:
        k = jk[rot % len(jk)]
        c, m, p, j = evs[k]
        for ln in range(950, 1031):
            if limit and (ln + rot) % 4:
                continue
            e = list(evs); e[k] = (c, m, p[:4].ljust(4, b"\0") + b"L" * ln + b"\0", True)
            put("labellen:%s=%d" % (m, ln), obs.encode_stream(e))
    # well-formed events in an order no runtime produces: a copy of one task or thread-state event is
    # inserted after another one, earlier or later in the stream (resuming a task buried under another,
    # ending one twice, executing what is paused ...); every byte is valid, only the history is not
    te = [k for k, e in enumerate(evs) if len(e[1]) == 3 and (e[1][1] == "T" or e[1][:2] == "OH") and not e[3]]
    pairs = [(a, b) for a in te for b in te if a != b]
    rng2 = random.Random(rot * 7919 + len(evs))
    for (a, b) in (pairs if not limit else rng2.sample(pairs, min(len(pairs), 60))):
        e = list(evs)
        e.insert(b + 1, (evs[b][0], evs[a][1], evs[a][2], False))
        put("echo:%s-after-%s" % (evs[a][1], evs[b][1]), obs.encode_stream(e))
    return out + muts


def mclass(kind):
    """Mutation class of a mutant name (used for stratified sampling and
    for the evidence counts)."""
    k = kind.split("@")[0].split("=")[0]
    parts = k.split(":")
    return ":".join(parts[:2])[:40]


def stratify(rng, muts, per_class):
    if not per_class:
        return muts
    by = {}
    for m in muts:
        by.setdefault(mclass(m[0]), []).append(m)
    out = []
    for c in sorted(by):
        lst = by[c]
        out.extend(lst if len(lst) <= per_class else rng.sample(lst, per_class))
    return out


JSON_JUNK = [None, True, False, 0, -1, 1e308, -1e308, 2 ** 53, 2 ** 31, -2 ** 31 - 1, 0.5, "", "x", "-1", [], [1], {}, {"a": 1},
             [[]], "1e999", 1e-320]


def meta_mutants(rng, base, key, limit, rot=0):
    m0 = obs.thread_meta(key[2], key[1], key[0], app_id=1,
                         cpus=[c for l in base["desc"]["looms"] if l["name"] == key[0] for c in l["cpus"]],
                         require=histgen.require_of(base["enabled"]),
                         extra=histgen.mark_meta(base["marks"]))
    muts = []

    def put(what, m):
        muts.append(("json:" + what, key, m if isinstance(m, (str, bytes)) else json.dumps(m)))

    paths = []

    def walk(o, path):
        paths.append(path)
        if isinstance(o, dict):
            for k in o:
                walk(o[k], path + [k])
        elif isinstance(o, list):
            for i in range(len(o)):
                walk(o[i], path + [i])
    walk(m0, [])
    for path in paths:
        if not path:
            continue
        for junk in JSON_JUNK:
            m = json.loads(json.dumps(m0))
            o = m
            for pp in path[:-1]:
                o = o[pp]
            o[path[-1]] = junk
            put("%s=%r" % (".".join(str(x) for x in path), junk), m)
        m = json.loads(json.dumps(m0))
        o = m
        for pp in path[:-1]:
            o = o[pp]
        del o[path[-1]]
        put("del " + ".".join(str(x) for x in path), m)
    # loom_cpus shapes
    cpusets = [
        [{"index": 1, "phyid": 1}, {"index": 0, "phyid": 0}],
        [{"index": 0, "phyid": 0}, {"index": 0, "phyid": 1}],
        [{"index": 0, "phyid": 0}, {"index": 1, "phyid": 0}],
        [{"index": 5, "phyid": 0}], [{"index": 10 ** 9, "phyid": 0}], [{"index": -1, "phyid": 0}],
        [{"index": 0, "phyid": -1}], [{"index": 0, "phyid": 2 ** 31}], [{"index": 0}], [{"phyid": 0}], [{}], [3],
        [{"index": 2, "phyid": 7}, {"index": 1, "phyid": 8}, {"index": 0, "phyid": 9}],
        [{"index": 0, "phyid": 0}] * 3, [{"index": i, "phyid": i} for i in range(300)],
        [{"index": 1e300, "phyid": 0}], [{"index": "0", "phyid": "0"}],
    ]
    for cs in cpusets:
        m = json.loads(json.dumps(m0)); m["ovni"]["loom_cpus"] = cs
        put("loom_cpus=%s" % json.dumps(cs)[:60], m)
    # marks garbage
    for mk in ({"0": {}}, {"x": {"title": "t", "chan_type": "single"}}, {"100": {"title": "t", "chan_type": "single"}},
               {"-1": {"title": "t", "chan_type": "single"}}, {"3": {"title": "t" * 5000, "chan_type": "single"}},
               {"3": {"title": "t", "chan_type": "weird"}}, {"3": {"title": "t", "chan_type": "single", "labels": {"x": "y"}}},
               {"3": {"title": "t", "chan_type": "single", "labels": {"1": 5}}},
               {"3": {"title": "t", "chan_type": "single", "labels": {"9" * 40: "big"}}},
               {"3": {"title": "t", "chan_type": "single", "labels": {"1": "L" * 5000}}}, [1, 2], "str",
               {str(i): {"title": "t%d" % i, "chan_type": "stack"} for i in range(100)}):
        m = json.loads(json.dumps(m0)); m["ovni"]["mark"] = mk
        put("mark=%s" % json.dumps(mk)[:50], m)
    for lm in ("a/b", "", "x" * 5000, ".", "..", "h.%s" % ("y" * 600)):
        m = json.loads(json.dumps(m0)); m["ovni"]["loom"] = lm
        put("loom=%r" % lm[:20], m)
    for req in ({"ovni": "1.1.0", "nosv": 3}, {"ovni": "1"}, {"ovni": "1.1.0", "x" * 300: "1.0.0"}, {"nosv": "2.4.0"},
                {"ovni": "1.1.0", "nosv": "2.4.0.1"}, {"ovni": "99999999999999999999.1.0"}, {"ovni": "-1.-1.-1"}, []):
        m = json.loads(json.dumps(m0)); m["ovni"]["require"] = req
        put("require=%s" % json.dumps(req)[:40], m)
    put("empty-file", "")
    put("not-json", "\x00\x01\x02 garbage {")
    put("deep-nesting", "[" * 5000 + "]" * 5000)
    put("deep-object", '{"a":' * 3000 + "1" + "}" * 3000)
    put("huge-number", '{"version": 3' + "0" * 400 + "}")
    put("dup-keys", '{"version": 3, "version": 4, "ovni": {"part": "thread"}, "ovni": 5}')
    put("bom", "﻿" + json.dumps(m0))
    put("comments", "/* c */ " + json.dumps(m0) + " // x")
    out = stratify(rng, muts, limit)
    # every string of the metadata grown to lengths around the powers of two (fixed-size buffers in the
    # readers); the lengths rotate with the base so that three consecutive bases cover all of them
    muts = []
    for pi, path in enumerate(paths):
        o = m0
        for pp in path:
            o = o[pp]
        if not path or not isinstance(o, str):
            continue
        lens = STR_LENS if not limit else [STR_LENS[(rot * limit + pi + j) % len(STR_LENS)] for j in range(limit)]
        for L in lens:
            m = json.loads(json.dumps(m0))
            q = m
            for pp in path[:-1]:
                q = q[pp]
            pad = "0" if o[-1:].isdigit() else "x"
            q[path[-1]] = (o + pad * L)[:L]
            put("len-%s=%d" % (".".join(str(x) for x in path), L), m)
    return out + muts


STR_LENS = [15, 16, 17, 31, 32, 33, 63, 64, 65, 127, 128, 129, 255, 256, 257, 511, 512, 513, 1023, 1024, 1025, 4095, 4096, 4097]


def offsets_mutants(base):
    host = base["desc"]["looms"][0]["name"].split(".")[0]
    return [("clkoff:" + n, None, t) for n, t in [
        ("empty", ""), ("header-only", "hdr\n"), ("garbage", "hdr\nfoo bar baz\n"),
        ("ok", "hdr\n0 %s 10 10 0\n" % host), ("dup", "hdr\n0 %s 10 10 0\n1 %s 5 5 0\n" % (host, host)),
        ("unknown-host", "hdr\n0 nosuchhost 10 10 0\n"), ("huge", "hdr\n0 %s 1e300 1 0\n" % host),
        ("negative-huge", "hdr\n0 %s -9e18 1 0\n" % host), ("nan", "hdr\n0 %s nan nan nan\n" % host),
        ("longname", "hdr\n0 %s 1 1 0\n" % ("h" * 5000)), ("longline", "hdr\n" + "9" * 3000 + "\n"),
        ("binary", "hdr\n\x00\x01\x02\n"), ("offset-makes-clock-negative", "hdr\n0 %s -100000000 1 0\n" % host)]]


_CTX = {}


def classify(tool, r):
    """None if the run is total, else (key, what)."""
    if r.timeout:
        return ("%s:hang" % tool, "%s did not terminate within the (retried) budget" % tool)
    if r.sanitizer:
        kind = core.sanitizer_kind(r.err)
        return ("%s:%s:%s" % (tool, kind, core.first_repo_frame(r.err)),
                "%s: sanitizer report %s" % (tool, kind))
    if r.sig:
        m = re.search(r"FATAL: (\w+):", r.err)
        where = "die@" + m.group(1) if m else "signal"
        return ("%s:sig%d:%s" % (tool, r.sig, where), "%s killed by signal %d (%s)" % (tool, r.sig, r.err.strip().split("\n")[-1][:150]))
    if r.rc not in (0, 1):
        return ("%s:exit%s" % (tool, r.rc), "%s exited with status %s" % (tool, r.rc))
    if r.rc == 1 and not r.err.strip():
        return ("%s:silent-failure" % tool, "%s failed without any diagnostic" % tool)
    return None


def run_mutant(build, base, wd, kind, key, data):
    """Write base + one mutation and run the four tools."""
    shutil.rmtree(wd, ignore_errors=True)
    c12.write_base(base, wd)
    args = []
    if kind.startswith("obs:"):
        with open(os.path.join(obs.stream_dir(wd, *key), "stream.obs"), "wb") as f:
            f.write(data)
    elif kind.startswith("json:"):
        with open(os.path.join(obs.stream_dir(wd, *key), "stream.json"), "w", encoding="utf-8", errors="surrogateescape") as f:
            f.write(data)
    else:
        with open(os.path.join(wd, "clock-offsets.txt"), "w") as f:
            f.write(data)
    out = []
    for tool in TOOLS:
        d = wd
        if tool == "ovnisort":
            d = wd + "-sort"
            shutil.rmtree(d, ignore_errors=True)
            shutil.copytree(wd, d)
        r = emu.run_tool(build, tool, [d], timeout=20, env=ENV)
        v = classify(tool, r)
        if v:
            out.append((v[0], v[1], r.brief()))
        if tool == "ovnisort":
            shutil.rmtree(d, ignore_errors=True)
    return out


def run_base(bi):
    chk, build = _CTX["chk"], _CTX["asan"]
    rng = chk.rng(bi, "mut")
    base = c12.gen_base(chk, bi)
    keys = tracegen.all_keys(base["desc"])
    wd = os.path.join(chk.scratch, "b%d" % bi)
    res = {"bi": bi, "n": 0, "viol": [], "kinds": {}}
    lim = _CTX["limit"]
    muts = []
    key = keys[bi % len(keys)]
    muts += stream_mutants(rng, base, key, lim, rot=bi)
    muts += meta_mutants(rng, base, key, lim, rot=bi)
    muts += offsets_mutants(base)
    try:
        # sanity: the unmutated base passes all four tools
        c12.write_base(base, wd)
        for tool in TOOLS:
            r = emu.run_tool(build, tool, [wd], timeout=20, env=ENV)
            v = classify(tool, r)
            if v or r.rc != 0:
                res["viol"].append(("base:%s" % (v[0] if v else "rc1"), "tool fails on the valid base trace", r.brief()))
                return res
        for (kind, k, data) in muts:
            vs = run_mutant(build, base, wd, kind, k, data)
            res["n"] += 1
            cls = mclass(kind)
            res["kinds"][cls] = res["kinds"].get(cls, 0) + 1
            for key_, what, o in vs:
                res["viol"].append((key_, "%s on mutant [%s]" % (what, kind[:80]), {"base": bi, "mutant": kind[:200], "obs": o}))
        return res
    finally:
        shutil.rmtree(wd, ignore_errors=True)
        shutil.rmtree(wd + "-sort", ignore_errors=True)


def run_sortring(i):
    """ovnisort's own buffers: valid streams with unsorted regions sorted
    with small look-back rings (the ring wraps many times), ASan + H1."""
    import c16
    chk, build = _CTX["chk"], _CTX["asan"]
    rng = chk.rng(i, "sortring")
    wd = os.path.join(chk.scratch, "sr%d" % i)
    out = {"viol": [], "n": 0}
    try:
        need = 0
        for s_ in range(rng.randint(1, 3)):
            evs, info = c16.gen_stream(rng, 300 + s_, "ok", before_start=(rng.random() < 0.5) if s_ else None)
            need = max(need, info["need"])
            if rng.random() < 0.3:
                # an event with an extreme clock somewhere (the stream may then be
                # unsortable: ovnisort must say so, not die)
                evs[rng.randrange(1, len(evs))][0] = rng.choice([0, 1, 2 ** 63 - 1, 2 ** 63, 2 ** 63 + 5, 2 ** 64 - 1])
            obs.write_stream(wd, "L", 1, 300 + s_, obs.thread_meta(300 + s_, 1, "L", cpus=[(0, 0)], extra=c16.MARK),
                             [c16.to_tuple(e) for e in evs])
        for n in sorted(set([2 * need + 4, need + 2, max(2, need), rng.choice([2, 3, 4, 8, 16, 64]), 10 ** 6])):
            d = wd + "-n%d" % n
            shutil.copytree(wd, d)
            r = emu.run_tool(build, "ovnisort", ["-n", str(n), d], timeout=30, env=ENV)
            shutil.rmtree(d, ignore_errors=True)
            out["n"] += 1
            v = classify("ovnisort", r)
            if v:
                out["viol"].append((v[0], "%s with -n %d on a valid stream with unsorted regions" % (v[1], n),
                                    {"case": i, "n": n, "obs": r.brief()}))
        return out
    finally:
        shutil.rmtree(wd, ignore_errors=True)


def run_taskword(arg):
    """One thread, two tasks, a word over execute/pause/resume/end: any order at all, legal or not."""
    mc, word = arg
    chk, build = _CTX["chk"], _CTX["asan"]
    u = obs.u32
    desc = tracegen.simple_system(nthreads=1, ncpus=1)
    key = tracegen.all_keys(desc)[0]
    evs = [("OHx", obs.i32(0, key[2], 0), False), (mc + "Yc", u(5) + b"ty\0", True),
           (mc + "Tc", u(1, 5), False), (mc + "Tc", u(2, 5), False)]
    for (op, t) in word:
        evs.append((mc + "T" + op, u(t, 0) if mc == "V" else u(t), False))
    evs.append(("OHe", b"", False))
    hist = [(9000 + 2 * n, key, m, p, j) for n, (m, p, j) in enumerate(evs)]
    wd = os.path.join(chk.scratch, "tw-%d" % os.getpid())
    try:
        shutil.rmtree(wd, ignore_errors=True)
        tracegen.write_trace(wd, desc, hist, require=histgen.require_of(mc))
        r = emu.run_tool(build, "ovniemu", [wd], timeout=20, env=ENV)
        v = classify("ovniemu", r)
        return {"arg": arg, "viol": v, "accepted": (not v) and r.rc == 0, "brief": r.brief() if v else None}
    finally:
        shutil.rmtree(wd, ignore_errors=True)


def task_words(chk, depth, cap):
    """Breadth first over the words the emulator accepts: every accepted word is extended by each of the
    eight symbols (a rejected word ends there).  Returns (runs, violations)."""
    n = 0
    viols = []
    for mc in "V6":
        frontier = [[]]
        for d in range(depth):
            cand = [(mc, w + [(op, t)]) for w in frontier for op in "xpre" for t in (1, 2)]
            if len(cand) > cap:
                cand = chk.rng(d, "taskwords" + mc).sample(cand, cap)
            frontier = []
            for res in core.pmap(run_taskword, cand, chunksize=8):
                n += 1
                if res["viol"]:
                    viols.append((res["viol"], res["arg"], res["brief"]))
                elif res["accepted"]:
                    frontier.append(res["arg"][1])
    return n, viols


def main(argv):
    chk = core.Check("C19", "exploration", argv)
    asan = chk.build("asan", TOOLS)
    quick = chk.tier == "quick"
    _CTX.update(chk=chk, asan=asan, limit=(8 if quick else None))
    bases = list(range(16 if quick else 48))
    if chk.replay:
        bases = [json.load(open(chk.replay))["replay"]["base"]]
    n = 0
    kinds = {}
    for r in core.pmap(run_base, bases):
        n += r["n"]
        for k, c in r["kinds"].items():
            kinds[k] = kinds.get(k, 0) + c
        for key, what, o in r["viol"]:
            chk.report(key, what, o)
    nsort = 0
    if not chk.replay:
        for r in core.pmap(run_sortring, range(150 if quick else 3000)):
            nsort += r["n"]
            for key, what, o in r["viol"]:
                chk.report(key, what, o)
        kinds["sort:small-ring"] = nsort
        ntw, tv = task_words(chk, 5 if quick else 7, 400 if quick else 4000)
        for (key, what), (mc, word), brief in tv:
            wtxt = " ".join("%sT%s(%d)" % (mc, op, t) for op, t in word)
            chk.report(key + ":task-order", "%s on the event order %s" % (what, wtxt), {"mc": mc, "word": word, "obs": brief})
        kinds["task-order-words"] = ntw
        nsort += ntw
    cov = {"evaluations": n * len(TOOLS) + nsort, "distinct_nontrivial": len(kinds),
           "rule": "structure-aware mutants of valid multi-model traces (flags nibbles, jumbo size fields incl. values "
                   ">= 2^31, truncation at every offset of the last two events, payload shapes, jumbo data without NUL, "
                   "MCV bytes, string arguments of 950-1030 characters, copies of task / thread-state events inserted out of order, every order of execute/pause/resume/end of two tasks that extends an accepted word (to length 5 / 7), extreme clocks, page-multiple file sizes, byte noise; every JSON type at every metadata "
                   "position, every metadata string grown to lengths 2^k-1, 2^k, 2^k+1 (k = 4..12), loom_cpus shapes, mark definitions, loom names, require dictionaries, malformed JSON, "
                   "clock-offset tables), each run through ovniemu/ovnidump/ovnitop/ovnisort built with ASan+UBSan and "
                   "the exact-size heap stream buffer. evaluations = tool runs; distinct_nontrivial = mutation kinds",
           "samples": [{"kind": k, "mutants": c} for k, c in sorted(kinds.items())[:40]],
           "mutants": n, "tools": TOOLS, "bases": len(bases), "ovnisort_small_ring_runs": nsort,
           "timeout_rule": "20 s, re-run once with 60 s; only a repeated hit is a hang"}
    return chk.finish(cov, assumptions=[
        "ASan/UBSan see accesses outside the heap copy of the stream (hook H1) and the tools' own heap/stack objects; "
        "in-bounds reads of the wrong event are not visible to them",
        "die()/abort() in a tool counts as death by signal (the property allows only exit status 0 or 1)"])
