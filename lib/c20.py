"""C20 - breakdown rows hold the sorted per-CPU values.  (A) the real
sort.c wired to a real bay in an ASan+UBSan harness: every sequence of input
changes over a small value domain to a bounded depth plus random ones; outputs
must be the ascending sort of the inputs and only outputs whose value changed
may be written.  (B) nOS-V / Nanos6 traces emulated with -b: after every event
the breakdown rows must be the ascending sort of the per-physical-CPU values
derived from the same run's cpu.prv."""

import itertools
import json
import os
import shutil

import core
import emu
import histgen
import pv
import refemu
import tracegen
import c06


# ---------------------------------------------------------------- part A ----
def sort_sequences(chk, quick):
    seqs = []
    vals = [None, 1, 2, 3]
    for n in range(1, 4 if quick else 5):
        depth = 4 if quick else 5
        # all sequences of single-input changes (each step really changes the input)
        def rec(cur, steps):
            if steps:
                seqs.append((n, list(steps)))
            if len(steps) >= depth:
                return
            for i in range(n):
                for v in vals:
                    if v != cur[i]:
                        nc = list(cur); nc[i] = v
                        rec(nc, steps + [[(i, v)]])
        if n <= 2 or not quick:
            rec([None] * n, [])
        else:
            rng0 = chk.rng(n, "sortsample")
            tmp = []
            save = seqs
            seqs_local = []
            # sampled closure for the larger n in the quick tier
            for _ in range(3000):
                cur = [None] * n
                steps = []
                for _ in range(depth):
                    i = rng0.randrange(n)
                    v = rng0.choice([x for x in vals if x != cur[i]])
                    cur[i] = v
                    steps.append([(i, v)])
                seqs_local.append((n, steps))
            seqs.extend(seqs_local)
    rng = chk.rng(0, "sortrand")
    for _ in range(1500 if quick else 50000):
        n = rng.choice([1, 2, 3, 5, 8, 16, 64])
        cur = [None] * n
        steps = []
        dom = rng.choice([[None, 1, 2, 3], [None] + list(range(1, 10)), "big"])
        for _ in range(rng.randint(1, 40)):
            grp = []
            for _ in range(rng.choice([1, 1, 1, 2, 3])):
                i = rng.randrange(n)
                if any(i == g[0] for g in grp):
                    continue
                v = rng.choice([None, rng.randint(-2 ** 62, 2 ** 62), rng.randint(1, 5)]) if dom == "big" else rng.choice(dom)
                if v == cur[i] or (v is None and cur[i] is None):
                    continue
                cur[i] = v
                grp.append((i, v))
            if grp:
                steps.append(grp)
        if steps:
            seqs.append((n, steps))
    return seqs


def fmt_seq(n, steps):
    return "%d : %s\n" % (n, " ; ".join(",".join("%d=%s" % (i, "N" if v is None else v) for i, v in g) for g in steps))


def part_a(chk, asan, quick):
    exe = os.path.join(chk.scratch, "sort_harness")
    chk.cc(exe, [os.path.join(core.VERIF, "drivers", "sort_harness.c")], asan,
           extra=[os.path.join(asan.dir, "src", "emu", "libemu.a"), os.path.join(asan.dir, "src", "libparson-static.a"),
                  os.path.join(asan.dir, "src", "libcommon-static.a")])
    seqs = sort_sequences(chk, quick)
    chunks = [seqs[i::core.NCPU] for i in range(core.NCPU)]

    def feed(chunk):
        text = "".join(fmt_seq(n, s) for n, s in chunk)
        return chunk, core.run_retry([exe], stdin=text.encode(), timeout=600)
    nsteps = 0
    distinct = set()
    for chunk, r in core.pmap(feed, chunks):
        if r.timeout:
            chk.note_inconclusive("sort harness timeout"); continue
        if r.sanitizer or r.sig or r.rc != 0:
            chk.report("sort-module:%s:%s" % (core.sanitizer_kind(r.err) if r.sanitizer else "crash:sig%s" % r.sig,
                                              core.first_repo_frame(r.err)),
                       "sort harness crashed / sanitizer report: " + r.err[-300:], r.brief()); continue
        lines = r.out.rstrip("\n").split("\n")
        if len(lines) != len(chunk):
            raise core.HarnessError("sort harness printed %d lines for %d sequences" % (len(lines), len(chunk)))
        for (n, steps), l in zip(chunk, lines):
            distinct.add(fmt_seq(n, steps))
            groups = l.split(" ; ")
            cur = [None] * n
            prev = [None] * n      # outputs start as null
            bad = None
            if len(groups) != len(steps) or "ERR" in l:
                bad = ("sort-module:error", "harness reported %r" % l[:200])
            else:
                for g, out in zip(steps, groups):
                    nsteps += 1
                    for i, v in g:
                        cur[i] = v
                    vs, dirty = out.split(" / ")
                    got = [None if x == "N" else int(x) for x in vs.split()]
                    exp = sorted((0 if v is None else v) for v in cur)
                    if got != exp:
                        bad = ("sort-module:not-sorted", "inputs %s -> outputs %s, ascending sort is %s" % (cur, got, exp)); break
                    need = "".join("1" if prev[k] != exp[k] else "0" for k in range(n))
                    d_ = dirty.strip()
                    if len(g) > 1:
                        # several inputs changed in one propagation: intermediate
                        # states legitimately touch more outputs; every changed
                        # output must still have been written
                        if any(need[k] == "1" and d_[k] == "0" for k in range(n)):
                            bad = ("sort-module:missed-output", "after %s outputs written %s, changed %s" % (g, d_, need)); break
                    elif d_ != need:
                        extra = [k for k in range(n) if dirty.strip()[k] == "1" and need[k] == "0"]
                        miss = [k for k in range(n) if dirty.strip()[k] == "0" and need[k] == "1"]
                        bad = ("sort-module:%s" % ("wrote-unchanged-output" if extra else "missed-output"),
                               "after %s outputs written %s, outputs whose value changed %s" % (g, dirty.strip(), need)); break
                    prev = exp
            if bad:
                chk.report(bad[0], bad[1], {"n": n, "steps": steps[:40]})
    return len(seqs), nsteps, len(distinct)


# ---------------------------------------------------------------- part B ----
def gen_case(chk, i):
    rng = chk.rng(i)
    mc = "V" if i % 3 else "6"
    ncpu = rng.randint(2, 6) if rng.random() < 0.8 else rng.randint(9, 18)
    nth = rng.randint(2, 6) if ncpu <= 6 else rng.randint(6, 14)
    # one loom, or (one case in four) the same CPUs and threads spread over 2-3 looms
    nloom = 1 if rng.random() < 0.75 or ncpu < 4 else rng.randint(2, 3)
    looms = []
    for l in range(nloom):
        cpus = [(k, 100 * l + k) for k in range(ncpu * l // nloom, ncpu * (l + 1) // nloom)]
        ths = list(range(50 + nth * l // nloom, 50 + nth * (l + 1) // nloom))
        if not ths:
            ths = [90 + l]
        phys = [p for (k, p) in cpus]
        if i % 2:
            phys.reverse()      # logical indexes need not follow the order of the physical ids
        looms.append({"name": "bd%d" % l if nloom > 1 else "bd", "cpus": [(j, p) for j, p in enumerate(phys)],
                      "procs": [{"pid": 5 + l, "appid": 1 + l, "threads": ths}]})
    desc = {"looms": looms}
    # a third of the histories pause and resume tasks bare (no API / blocking
    # region around the pause), the rest in the shape the runtimes produce
    bare = rng.random() < 0.35
    g = histgen.Gen(rng, desc, mc, {}, weights={"task": 10, "model": 8, "state": 3, "aff": 3, "misc": 0, "mark": 0, "kernel": 0},
                    wrapped_pause=not bare)
    g.run(rng.choice([80, 200, 400]))
    hist = g.finish(close_regions=True)
    return {"mc": mc, "desc": desc, "hist": hist, "bare": bare}


_CTX = {}


def run_case(i):
    chk, build = _CTX["chk"], _CTX["plain"]
    case = gen_case(chk, i)
    mc, desc, hist = case["mc"], case["desc"], case["hist"]
    wd = os.path.join(chk.scratch, "b%d" % i)
    res = {"i": i, "viol": None, "inconclusive": None, "events": len(hist), "mc": mc,
           "ncpu": sum(len(l["cpus"]) for l in desc["looms"]), "nloom": len(desc["looms"]),
           "changes": 0, "bare": case["bare"], "bodyless": 0}
    try:
        extra = {"nosv": {"can_breakdown": True}} if mc == "V" else None
        tracegen.write_trace(wd, desc, hist, require=histgen.require_of(mc), extra_meta=extra)
        r = emu.emu(build, wd, ["-b"], timeout=60)
        if r.timeout:
            res["inconclusive"] = "timeout"; return res
        if r.sig or r.rc not in (0, 1):
            res["viol"] = ("crash:sig%s" % r.sig, "emulator crashed with -b", r.brief()); return res
        if not emu.accepted(r):
            res["viol"] = ("rejects-with-breakdown", "ovniemu -b rejected a history it accepts without -b? " + emu.last_error(r),
                           r.brief()); return res
        name = "nosv-breakdown" if mc == "V" else "nanos6-breakdown"
        bt = 17 if mc == "V" else 41
        sst, tyt, idt = (13, 11, 16) if mc == "V" else (37, 36, 40)
        out = pv.Out(wd, ("cpu", name))
        if name not in out.prv:
            res["viol"] = ("no-breakdown-trace", "%s.prv not written" % name, {}); return res
        cpu, bd = out.prv["cpu"], out.prv[name]
        cpcf, bpcf = out.pcf["cpu"], out.pcf[name]

        def val_of(pcf, ty, label):
            for v, l in pcf.types[ty][1].items():
                if l == label:
                    return v
            return None
        TASKBODY = val_of(cpcf, sst, refemu.TASK_BODY[mc])
        PROG = val_of(cpcf, idt, "Progressing")
        UNKNOWN = val_of(bpcf, bt, "Unknown subsystem")
        if None in (TASKBODY, PROG, UNKNOWN):
            res["viol"] = ("breakdown-labels-missing", "cannot find the Task body / Progressing / Unknown subsystem values "
                           "in the .pcf files", {}); return res
        phys = [k + 1 for k, nm in enumerate(out.row["cpu"].threads) if not nm.startswith("vCPU")]
        clocks = [h[0] for h in hist]
        times = [c - clocks[0] for c in clocks]
        cst = cpu.states_at(times)
        bst = bd.states_at(times)
        nrows = len(phys)
        if bd.nrows != nrows:
            res["viol"] = ("breakdown-rows", "%d breakdown rows for %d physical CPUs" % (bd.nrows, nrows), {}); return res
        last = None
        for k, (cs, bs) in enumerate(zip(cst, bst)):
            vals = []
            ambiguous = False
            for row in phys:
                ss = cs.get((row, sst)); tt = cs.get((row, tyt)); idle = cs.get((row, idt))
                if ss == TASKBODY and tt is None:
                    ambiguous = True
                if ss == TASKBODY and tt is not None:
                    tr = tt
                elif ss is not None:
                    tr = ss
                else:
                    tr = UNKNOWN
                v = tr if idle == PROG else (idle or 0)
                vals.append(v)
            exp = sorted(vals)
            got = [bs.get((r, bt), 0) for r in range(1, nrows + 1)]
            if ambiguous:
                # some CPU is "in a task body" with no task shown (bare pause):
                # there is no task type, so "otherwise the subsystem" applies
                res["bodyless"] = res.get("bodyless", 0) + 1
            if got != exp:
                ev = hist[k]
                res["viol"] = ("breakdown-not-sorted-multiset:%s" % mc,
                               "after event #%d %s (t=%d) breakdown rows %s, per-CPU values sorted %s"
                               % (k, ev[2], times[k], got, exp), {"event": k}); return res
            if exp != last:
                res["changes"] += 1
            last = exp
        # "updates only the rows needed": no record rewrites a row with the value it already holds
        cur = {}
        for (r_, t_, ty, v) in bd.lines:
            if ty != bt:
                continue
            if cur.get(r_) == v:
                res["viol"] = ("breakdown-redundant-row-update:%s" % mc,
                               "breakdown row %d is written again with the value %d it already holds (t=%d)" % (r_, v, t_),
                               {"row": r_, "time": t_}); return res
            cur[r_] = v
        # every breakdown value labelled
        for (r_, t_, ty, v) in bd.lines:
            if v != 0 and bpcf.label(ty, v) is None:
                res["viol"] = ("breakdown-unlabelled", "breakdown value %d has no label" % v, {}); return res
        return res
    finally:
        shutil.rmtree(wd, ignore_errors=True)


def main(argv):
    chk = core.Check("C20", "exploration", argv)
    asan = chk.build("asan", ["emu", "parson-static", "common-static"])
    plain = chk.build("plain", ["ovniemu"])
    _CTX.update(chk=chk, plain=plain)
    quick = chk.tier == "quick"
    nseq, nsteps, dseq = part_a(chk, asan, quick)
    cases = list(range(100 if quick else 3000))
    if chk.replay:
        rp = json.load(open(chk.replay))["replay"]
        cases = [rp["case"]] if "case" in rp else []
    nb = ev = changes = nbare = bodyless = 0
    shapes = set()
    for r in core.pmap(run_case, cases):
        if r["inconclusive"]:
            chk.note_inconclusive(r["inconclusive"]); continue
        nb += 1; ev += r["events"]; changes += r["changes"]; nbare += 1 if r["bare"] else 0; bodyless += r["bodyless"]
        shapes.add((r["mc"], r["ncpu"], r["nloom"]))
        if r["viol"]:
            chk.report(r["viol"][0], r["viol"][1], {"case": r["i"], "observation": r["viol"][2]})
    cov = {"evaluations": nseq + nb, "distinct_nontrivial": dseq + len(shapes),
           "rule": "(A) sort.c + bay in-process under ASan+UBSan: all sequences of single-input changes over {null,1,2,3} to "
                   "depth 4/5 for 1..4 inputs (sampled for the larger n in the quick tier) and random sequences (up to 64 "
                   "inputs, 64-bit values, several inputs per propagation): outputs == ascending sort (null as 0) after each "
                   "propagation and the set of outputs written == outputs whose value changed; (B) nOS-V and Nanos6 "
                   "histories (tasks of several types, subsystems, idle states, pause/migration, tasks paused inside an API/"
                   "blocking region or bare, 2-18 CPUs in 1-3 looms) emulated with -b: "
                   "breakdown rows == sorted per-physical-CPU values derived from the same run's cpu.prv after every event. "
                   "distinct_nontrivial = distinct harness sequences + (model, CPUs, looms) shapes",
           "samples": [{"harness": "3 : 0=2 ; 1=1 ; 0=N", "expected": "0 0 2 / 111 ; 0 1 2 / 010 ; 0 0 1 / 011"}],
           "harness_sequences": nseq, "harness_propagations": nsteps, "breakdown_traces": nb, "events_compared": ev,
           "distinct_breakdown_states": changes, "bare_pause_histories": nbare,
           "instants_in_task_body_without_task": bodyless, "exhaustive": True,
           "exhaustive_scope": "single-input change sequences to the stated depth on the sort module"}
    return chk.finish(cov, assumptions=[
        "per-CPU breakdown value = task type while the CPU's subsystem is the task body and a type is shown, else the "
        "subsystem, else 'Unknown subsystem'; replaced by the idle value whenever idle is not Progressing (nothing = 0)",
        "PRV duplicate suppression hides rewrites of unchanged rows in the trace; that clause is decided on the module"])
