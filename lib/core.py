"""Shared machinery of the /verif checks: scratch builds of /repo, child
process execution with watchdog, verdict bookkeeping, known-findings
matching, evidence writing.  Python standard library only."""

import atexit
import hashlib
import json
import multiprocessing
import os
import random
import re
import shutil
import signal
import subprocess
import sys
import tempfile
import time

VERIF = os.path.dirname(os.path.dirname(os.path.abspath(__file__)))
REPO = os.environ.get("VERIF_REPO", "/repo")
NCPU = int(os.environ.get("VERIF_JOBS", str(min(16, os.cpu_count() or 4))))

# When a tree other than /repo is under test (calibration against a scratch
# worktree), evidence and replays go to side directories: evidence/ must only
# ever describe runs against /repo itself.
ALT = REPO != "/repo"
EVIDENCE_DIR = os.path.join(VERIF, ".alt-evidence" if ALT else "evidence")
REPLAY_DIR = os.path.join(VERIF, ".alt-replays" if ALT else "replays")

EXIT_OK, EXIT_VIOLATION, EXIT_HARNESS = 0, 1, 2

SAN_ENV = {
    "ASAN_OPTIONS": "abort_on_error=1:detect_leaks=0:allocator_may_return_null=1:"
                    "handle_abort=0:print_summary=1:detect_stack_use_after_return=0",
    "UBSAN_OPTIONS": "print_stacktrace=1:halt_on_error=1:abort_on_error=1",
}

FLAVOURS = {
    # the shipped configuration plus the hook guard
    "plain": ["-DCMAKE_BUILD_TYPE=RelWithDebInfo",
              "-DCMAKE_C_FLAGS=-DOVNI_VERIF -Wno-error"],
    "asan": ["-DCMAKE_BUILD_TYPE=Debug",
             "-DCMAKE_INTERPROCEDURAL_OPTIMIZATION=OFF",
             "-DCMAKE_C_FLAGS=-O1 -g -fno-omit-frame-pointer "
             "-fsanitize=address,undefined -fno-sanitize=signed-integer-overflow "
             "-fno-sanitize-recover=all -DOVNI_VERIF -Wno-error"],
    "tsan": ["-DCMAKE_BUILD_TYPE=Debug",
             "-DCMAKE_INTERPROCEDURAL_OPTIMIZATION=OFF",
             "-DCMAKE_C_FLAGS=-O1 -g -fno-omit-frame-pointer -fsanitize=thread "
             "-DOVNI_VERIF -Wno-error"],
}


class HarnessError(Exception):
    pass


def _scratch_root():
    for d in ("/dev/shm", os.environ.get("TMPDIR", ""), "/tmp"):
        if d and os.path.isdir(d) and os.access(d, os.W_OK):
            return d
    return tempfile.gettempdir()


def sh(cmd, cwd=None, env=None, timeout=1800):
    p = subprocess.run(cmd, cwd=cwd, env=env, stdout=subprocess.PIPE,
                       stderr=subprocess.STDOUT, timeout=timeout)
    return p.returncode, p.stdout.decode("utf-8", "replace")


class Result:
    """Observation of one child process."""
    __slots__ = ("rc", "sig", "out", "err", "timeout", "wall")

    def __init__(self, rc, sig, out, err, timeout, wall):
        self.rc, self.sig, self.out, self.err = rc, sig, out, err
        self.timeout, self.wall = timeout, wall

    @property
    def sanitizer(self):
        e = self.err
        return ("ERROR: AddressSanitizer" in e or "runtime error:" in e
                or "ERROR: UndefinedBehaviorSanitizer" in e
                or "WARNING: ThreadSanitizer" in e)

    def brief(self):
        return {"rc": self.rc, "sig": self.sig, "timeout": self.timeout,
                "stderr_tail": self.err[-1500:], "stdout_tail": self.out[-600:]}


def run(argv, env=None, cwd=None, timeout=20, stdin=None):
    """Run a child with a wall-clock watchdog.  A watchdog hit is reported
    in Result.timeout and must be treated as inconclusive by callers
    (re-run with a larger budget before it means anything)."""
    e = dict(os.environ)
    e.update(SAN_ENV)
    if env:
        e.update(env)
    t0 = time.time()
    try:
        p = subprocess.Popen(argv, env=e, cwd=cwd, stdin=subprocess.PIPE if stdin is not None else subprocess.DEVNULL,
                             stdout=subprocess.PIPE, stderr=subprocess.PIPE,
                             start_new_session=True)
    except OSError as ex:
        raise HarnessError("cannot execute %s: %s" % (argv[0], ex))
    try:
        out, err = p.communicate(stdin, timeout=timeout)
        to = False
    except subprocess.TimeoutExpired:
        try:
            os.killpg(p.pid, signal.SIGKILL)
        except OSError:
            pass
        out, err = p.communicate()
        to = True
    rc = p.returncode
    sig = -rc if rc is not None and rc < 0 else 0
    return Result(rc if rc is not None and rc >= 0 else None, sig,
                  out.decode("utf-8", "replace"), err.decode("utf-8", "replace"),
                  to, time.time() - t0)


def run_retry(argv, env=None, cwd=None, timeout=20, stdin=None):
    """Watchdog discipline of DESIGN 2.8: a timeout is re-run once with 3x."""
    r = run(argv, env, cwd, timeout, stdin)
    if r.timeout:
        r = run(argv, env, cwd, timeout * 3, stdin)
    return r


class Build:
    def __init__(self, bdir, flavour):
        self.dir = bdir
        self.flavour = flavour

    def tool(self, name):
        return os.path.join(self.dir, "src", "emu", name)

    @property
    def libdir(self):
        return os.path.join(self.dir, "src", "rt")

    @property
    def incdir(self):
        return os.path.join(self.dir, "include")


class Check:
    def __init__(self, prop, level, argv=None, desc=""):
        self.prop = prop
        self.level = level
        self.t0 = time.time()
        argv = list(sys.argv[1:] if argv is None else argv)
        self.tier = os.environ.get("VERIF_TIER", "quick")
        self.replay = None
        i = 0
        while i < len(argv):
            if argv[i] == "--tier":
                self.tier = argv[i + 1]; i += 2
            elif argv[i] == "--replay":
                self.replay = argv[i + 1]; i += 2
            else:
                i += 1
        if self.tier not in ("quick", "thorough"):
            raise HarnessError("bad tier " + self.tier)
        try:
            self.seed = int(os.environ.get("VERIF_SEED", "1"))
        except ValueError:
            self.seed = 1
        self.scratch = tempfile.mkdtemp(prefix="ovni-verif-%s-" % prop, dir=_scratch_root())
        atexit.register(self._cleanup)
        for s in (signal.SIGTERM, signal.SIGINT, signal.SIGHUP):
            signal.signal(s, self._sig)
        self.builds = {}
        self.violations = []      # (key, what, replay_path)
        self.known_hits = {}      # key -> count
        self.viol_keys = {}
        self.inconclusive = 0
        self.inconclusive_notes = []
        self.known = self._load_known()
        self._mainpid = os.getpid()

    # -- housekeeping -----------------------------------------------------
    def _sig(self, signum, frame):
        if os.getpid() != self._mainpid:
            os._exit(0)     # pool worker being terminated
        sys.stderr.write("%s: interrupted by signal %d\n" % (self.prop, signum))
        sys.exit(EXIT_HARNESS)

    def _cleanup(self):
        if os.getpid() != self._mainpid:
            return
        shutil.rmtree(self.scratch, ignore_errors=True)

    def _load_known(self):
        p = os.path.join(VERIF, "known_findings.json")
        if not os.path.exists(p):
            return []
        with open(p) as f:
            return json.load(f).get("findings", [])

    def case_seed(self, i):
        return self.seed * 1000003 + i

    def rng(self, i=0, salt=""):
        return random.Random("%s/%d/%d/%s" % (self.prop, self.seed, i, salt))

    def subdir(self, name):
        d = os.path.join(self.scratch, name)
        os.makedirs(d, exist_ok=True)
        return d

    # -- builds -----------------------------------------------------------
    def build(self, flavour, targets=None):
        if flavour in self.builds:
            b = self.builds[flavour]
        else:
            bdir = os.path.join(self.scratch, "build-" + flavour)
            cmd = ["cmake", "-G", "Ninja", "-S", REPO, "-B", bdir,
                   "-DUSE_MPI=OFF", "-DBUILD_TESTING=OFF",
                   "-DCMAKE_INSTALL_PREFIX=" + os.path.join(self.scratch, "prefix"),
                   "-DCMAKE_C_COMPILER_LAUNCHER=" + os.path.join(VERIF, "tools", "cc-nowerror.sh"),
                   "-Wno-dev"] + FLAVOURS[flavour]
            rc, out = sh(cmd)
            if rc != 0:
                raise HarnessError("cmake configure failed (%s):\n%s" % (flavour, out[-3000:]))
            b = Build(bdir, flavour)
            self.builds[flavour] = b
        cmd = ["cmake", "--build", b.dir, "-j", str(NCPU)]
        if targets:
            cmd += ["--target"] + list(targets)
        rc, out = sh(cmd)
        if rc != 0:
            raise HarnessError("build failed (%s):\n%s" % (flavour, out[-4000:]))
        return b

    def cc(self, out, sources, build, extra=(), san=None, libs=("emu",)):
        """Compile a driver/harness against the scratch build."""
        flags = ["-std=gnu11", "-D_POSIX_C_SOURCE=200809L", "-D_GNU_SOURCE", "-g", "-O1",
                 "-I", os.path.join(REPO, "src", "emu"), "-I", os.path.join(REPO, "src"),
                 "-I", os.path.join(REPO, "src", "include"),
                 "-I", build.incdir, "-I", os.path.join(build.dir, "src"),
                 "-DOVNI_VERIF"]
        if san is None:
            san = {"asan": ["-fsanitize=address,undefined", "-fno-sanitize-recover=all",
                            "-fno-omit-frame-pointer"],
                   "tsan": ["-fsanitize=thread"], "plain": []}[build.flavour]
        cmd = ["gcc"] + flags + list(san) + list(sources) + list(extra) + ["-o", out]
        rc, o = sh(cmd)
        if rc != 0:
            raise HarnessError("compiling %s failed:\n%s" % (out, o[-4000:]))
        return out

    # -- verdicts ---------------------------------------------------------
    def note_inconclusive(self, why):
        self.inconclusive += 1
        if len(self.inconclusive_notes) < 10:
            self.inconclusive_notes.append(why)

    def report(self, key, what, replay):
        """Route one observed violation through known-findings matching."""
        for k in self.known:
            if k.get("property") == self.prop and k.get("status") == "open" and k.get("key") == key:
                if key not in self.known_hits:
                    self.known_hits[key] = [0, k.get("what", what)]
                self.known_hits[key][0] += 1
                return False
        n = self.viol_keys.get(key, 0)
        self.viol_keys[key] = n + 1
        if n >= 3 or len(self.violations) >= 25:
            return True   # counted, but do not flood replays
        h = hashlib.sha1((key + json.dumps(replay, sort_keys=True, default=str)).encode()).hexdigest()[:10]
        os.makedirs(REPLAY_DIR, exist_ok=True)
        path = os.path.join(REPLAY_DIR, "%s-%s.json" % (self.prop, h))
        obj = {"property": self.prop, "key": key, "what": what, "seed": self.seed,
               "tier": self.tier, "replay": replay}
        with open(path, "w") as f:
            json.dump(obj, f, indent=1, default=str)
        self.violations.append((key, what, path))
        return True

    def finish(self, coverage, assumptions=None, require_conclusive=True):
        for msg in OBS_ERRORS[:20]:
            self.report("output-unreadable:" + msg.split(":")[0], "a file written by the tools for an accepted input does not "
                        "have the documented form: " + msg[:300], {"error": msg[:1000]})
        nviol = sum(self.viol_keys.values())
        cov = dict(coverage)
        cov.setdefault("inconclusive", self.inconclusive)
        if self.inconclusive_notes:
            cov.setdefault("inconclusive_notes", self.inconclusive_notes)
        cov["known_findings_hit"] = {k: v[0] for k, v in self.known_hits.items()}
        cov["violation_keys"] = dict(self.viol_keys)
        ev = {"property_id": self.prop, "tier": self.tier, "seed": self.seed,
              "level": self.level, "coverage": cov,
              "assumptions": list(assumptions or []),
              "wall_s": round(time.time() - self.t0, 2), "violations": nviol}
        problems = validate_evidence(ev)
        os.makedirs(EVIDENCE_DIR, exist_ok=True)
        if self.replay:
            # re-running one recorded case says nothing about coverage: keep the
            # evidence of the last full run, write this run's beside the replays
            problems = []
            evpath = os.path.join(REPLAY_DIR, "last-replay-%s.evidence.json" % self.prop)
            os.makedirs(REPLAY_DIR, exist_ok=True)
        else:
            evpath = os.path.join(EVIDENCE_DIR, self.prop + ".json")
        with open(evpath, "w") as f:
            json.dump(ev, f, indent=1, default=str)
            f.write("\n")
        for key, (n, what) in sorted(self.known_hits.items()):
            print("KNOWN-FINDING: property=%s %s [key=%s, seen %d times]" % (self.prop, what, key, n))
        for key, what, path in self.violations:
            print("VIOLATION property=%s replay=%s" % (self.prop, path))
            print("  key=%s: %s" % (key, what))
        print("%s %s seed=%d: evaluations=%s distinct_nontrivial=%s inconclusive=%d violations=%d known=%d wall=%.1fs"
              % (self.prop, self.tier, self.seed, cov.get("evaluations"), cov.get("distinct_nontrivial"),
                 self.inconclusive, nviol, len(self.known_hits), time.time() - self.t0))
        sys.stdout.flush()
        if nviol:
            return EXIT_VIOLATION
        if problems:
            sys.stderr.write("evidence problems: %s\n" % problems)
            return EXIT_HARNESS
        if require_conclusive and not cov.get("evaluations"):
            sys.stderr.write("no conclusive case was evaluated\n")
            return EXIT_HARNESS
        return EXIT_OK


def validate_evidence(ev):
    """Minimal structural validation mirroring EVIDENCE.schema.json."""
    probs = []
    for k in ("property_id", "tier", "seed", "level", "coverage", "wall_s"):
        if k not in ev:
            probs.append("missing " + k)
    c = ev.get("coverage", {})
    if ev.get("level") in ("exploration", "fault_enumeration"):
        if not isinstance(c.get("evaluations"), int) or c.get("evaluations", 0) < 1:
            probs.append("evaluations < 1")
        if not isinstance(c.get("distinct_nontrivial"), int) or c.get("distinct_nontrivial", 0) < 2:
            probs.append("distinct_nontrivial < 2")
        if not isinstance(c.get("rule"), str):
            probs.append("rule missing")
        if not isinstance(c.get("samples"), list) or not c.get("samples"):
            probs.append("samples missing")
    return probs


# -- parallel map ---------------------------------------------------------
_POOL_FN = None


OBS_ERRORS = []     # files written by the tools under test that a monitor could not read back


def _is_observation_error(ex):
    # lib/pv.py PrvError and lib/obs.py DecodeError: what a tool wrote does not
    # have the documented form.  That is an observation about the tool, not a bug
    # of the monitor.
    return type(ex).__name__ in ("PrvError", "DecodeError")


def _pool_call(arg):
    try:
        return ("ok", _POOL_FN(arg))
    except HarnessError as ex:
        return ("harness", str(ex))
    except Exception as ex:  # a bug in the monitor is a harness failure, never a verdict
        if _is_observation_error(ex):
            return ("obs", "%s: %s" % (type(ex).__name__, ex))
        import traceback
        return ("harness", "%s\n%s" % (ex, traceback.format_exc()))


def _init_worker():
    # workers must not inherit the main process' signal handlers or cleanup
    for s_ in (signal.SIGTERM, signal.SIGINT, signal.SIGHUP):
        signal.signal(s_, signal.SIG_DFL)


def pmap(fn, args, jobs=None, chunksize=1):
    """Ordered parallel map over fork-started worker processes; yields
    results.  A worker that dies (killed, out of memory) breaks the pool and
    raises HarnessError instead of hanging the check."""
    global _POOL_FN
    args = list(args)
    if not args:
        return
    jobs = jobs or NCPU
    if jobs <= 1 or len(args) == 1:
        for a in args:
            yield fn(a)
        return
    _POOL_FN = fn
    import concurrent.futures as cf
    ctx = multiprocessing.get_context("fork")
    ex = cf.ProcessPoolExecutor(max_workers=jobs, mp_context=ctx, initializer=_init_worker)
    clean = False
    try:
        # bounded submission window keeps memory flat for large case lists
        window = jobs * 4
        pending = []
        it = iter(args)
        done = False
        while True:
            while not done and len(pending) < window:
                try:
                    a = next(it)
                except StopIteration:
                    done = True
                    break
                pending.append(ex.submit(_pool_call, a))
            if not pending:
                clean = True
                break
            f = pending.pop(0)
            try:
                st, val = f.result(timeout=3600)
            except cf.process.BrokenProcessPool:
                raise HarnessError("a worker process died (killed or out of memory)")
            except cf.TimeoutError:
                raise HarnessError("a case did not finish within an hour")
            if st == "obs":
                OBS_ERRORS.append(val)
                continue
            if st != "ok":
                raise HarnessError(val)
            yield val
    finally:
        # after a normal end every future has been collected: wait for the idle
        # workers to leave (otherwise they print tracebacks about closed pipes
        # later); after an error do not wait for anything
        ex.shutdown(wait=clean, cancel_futures=True)


def main_wrapper(fn):
    """Run a check's main(); map exceptions to the harness exit code."""
    try:
        rc = fn()
    except HarnessError as ex:
        sys.stderr.write("HARNESS FAILURE: %s\n" % ex)
        rc = EXIT_HARNESS
        if "worker process died" in str(ex) and not os.environ.get("VERIF_RETRIED"):
            # something outside the check killed a worker: run the whole check once more
            sys.stderr.write("re-running the check once\n")
            sys.stderr.flush(); sys.stdout.flush()
            os.environ["VERIF_RETRIED"] = "1"
            atexit._run_exitfuncs()
            os.execv(sys.executable, [sys.executable] + sys.argv)
    except SystemExit:
        raise
    except Exception:
        import traceback
        traceback.print_exc()
        rc = EXIT_HARNESS
    sys.stdout.flush()
    sys.exit(rc)


def first_repo_frame(stderr):
    """Top-most frame of a sanitizer stack that lies in /repo sources."""
    for m in re.finditer(r"#\d+ 0x[0-9a-f]+ in (\S+) (\S+)", stderr):
        fn, loc = m.group(1), m.group(2)
        if loc.startswith(REPO + "/"):
            f = os.path.basename(loc.split(":")[0])
            return "%s@%s" % (fn, f)
    return "unknown-frame"


def sanitizer_kind(stderr):
    m = re.search(r"ERROR: AddressSanitizer: (\S+)", stderr)
    if m:
        return "asan-" + m.group(1)
    m = re.search(r"runtime error: ([a-z -]+)", stderr)
    if m:
        return "ubsan-" + m.group(1).strip().replace(" ", "-")[:40]
    if "WARNING: ThreadSanitizer" in stderr:
        return "tsan"
    return "sanitizer"
