"""Running the emulator and tools of a scratch build."""
import os
from core import run_retry, REPO

ENV = {"OVNI_CONFIG_DIR": os.path.join(REPO, "cfg")}


def run_tool(build, tool, args, timeout=30, env=None, stdin=None, cwd=None, nofile=None):
    """nofile: run the tool with this limit on open file descriptors (a trace
    may have more streams than the limit; the tools map a stream and close it)."""
    e = dict(ENV)
    if env:
        e.update(env)
    argv = [build.tool(tool)] + list(args)
    if nofile:
        argv = ["sh", "-c", 'ulimit -n %d && exec "$@"' % nofile, "sh"] + argv
    return run_retry(argv, env=e, timeout=timeout, stdin=stdin, cwd=cwd)


def emu(build, tracedir, args=(), timeout=30, env=None, nofile=None):
    # pre-create the cfg directory: the emulator then skips copying the
    # Paraver configuration files (halves the run time of tiny traces)
    return run_tool(build, "ovniemu", list(args) + [tracedir], timeout=timeout, env=env, nofile=nofile)


def accepted(res):
    # exit status only: the wording of the final INFO line is not part of any property
    return res.rc == 0 and res.sig == 0 and not res.timeout


def rejected_cleanly(res):
    """exit status 1 with a diagnostic, no signal."""
    return res.sig == 0 and res.rc == 1 and not res.timeout and res.err.strip() != ""


def last_error(res, n=3):
    lines = [l for l in res.err.split("\n") if "ERROR" in l or "error" in l]
    return " | ".join(lines[:n])
