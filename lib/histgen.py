"""Generator of random histories that the reference model considers legal,
over all eight models, thread states, affinity, marks and tasks."""

import struct

import obs
import refemu
from refemu import UNKNOWN, RUNNING, PAUSED, DEAD, COOLING, WARMING

REQUIRE = {"V": ("nosv", "2.4.0"), "6": ("nanos6", "1.1.0"), "D": ("nodes", "1.0.0"), "M": ("mpi", "1.0.0"),
           "T": ("tampi", "1.0.0"), "P": ("openmp", "1.1.0"), "K": ("kernel", "1.0.0")}


_BLABELS = None


def boundary_labels():
    """Labels whose hash sits at a boundary of the gid computation (steering only)."""
    global _BLABELS
    if _BLABELS is None:
        import json, os
        p = os.path.join(os.path.dirname(os.path.dirname(os.path.abspath(__file__))), "spec", "labels.json")
        _BLABELS = json.load(open(p))["labels"]
    return _BLABELS


def require_of(enabled):
    return {REQUIRE[m][0]: REQUIRE[m][1] for m in enabled if m in REQUIRE}


def mark_meta(marks, labels=None):
    if not marks:
        return None
    d = {}
    for ty, kind in marks.items():
        d[str(ty)] = {"title": "mark type %d" % ty, "chan_type": kind}
        if labels and ty in labels:
            d[str(ty)]["labels"] = {str(v): l for v, l in labels[ty].items()}
    return {"ovni": {"mark": d}}


class Gen:
    def __init__(self, rng, desc, enabled, marks=None, tasks=True, clock0=10000, unique_clocks=True,
                 weights=None, wrapped_pause=False):
        self.rng, self.desc = rng, desc
        self.enabled = set(enabled) | {"O"}
        self.marks = marks or {}
        self.tasks = tasks
        # real runtimes pause a task from inside an API / blocking region
        self.wrapped_pause = wrapped_pause
        self.sp = refemu.spec()
        self.hist = []       # (clock, key, mcv, payload, jumbo)
        self.clock = clock0
        self.unique = unique_clocks
        self.model = refemu.FullSystem(desc, self.enabled, self.marks)
        self.by_model = {}
        for mcv, e in self.sp["events"].items():
            self.by_model.setdefault(e["model"], []).append((mcv, e))
        for m in self.by_model:
            self.by_model[m].sort()
        self.pop_by_label = {}
        for mcv, e in self.sp["events"].items():
            if e["op"] == "pop":
                self.pop_by_label[(e["model"], e["ch"], e["label"])] = mcv
        self.next_task = 1
        self.next_type = 1
        # task and task type ids: unique over the whole trace, or (every other system, decided by its
        # shape, not by a draw) counted per process and model from 1 - the ids of an SPMD code are the same
        # numbers in every process, and nOS-V and Nanos6 number their tasks independently
        nthreads = sum(len(p["threads"]) for l in desc["looms"] for p in l["procs"])
        self.local_ids = (nthreads + desc["looms"][0]["procs"][0]["pid"]) % 2 == 0
        self._local = {}
        self.nrejected = 0
        self.w = dict(state=2, aff=2, model=10, mark=2, task=4, misc=1, kernel=1)
        if weights:
            self.w.update(weights)

    # -- plumbing -------------------------------------------------------------
    def _tick(self, key=None):
        if self.unique:
            self.clock += self.rng.choice([1, 1, 3, 10, 1000])
        else:
            # equal clocks only between consecutive events of one thread:
            # across streams the merge order of ties is unspecified
            same = bool(self.hist) and self.hist[-1][1] == key
            self.clock += self.rng.choice([0, 0, 1, 5]) if same else self.rng.choice([1, 5])
        return self.clock

    def _rebuild(self):
        self.model = refemu.FullSystem(self.desc, self.enabled, self.marks)
        for (c, k, m, p, j) in self.hist:
            self.model.event(k, m, p, j)

    def emit(self, key, mcv, payload=b"", jumbo=False):
        """Append if the model accepts; returns True/False."""
        try:
            self.model.event(key, mcv, payload, jumbo)
        except refemu.Reject:
            self.nrejected += 1
            self._rebuild()
            return False
        self.hist.append((self._tick(key), key, mcv, payload, jumbo))
        return True

    def threads(self):
        return self.model.thread_rows

    # -- candidate proposals ----------------------------------------------------
    def _free_cpu(self, th, for_running=True):
        loom = th.loom
        cands = [loom.vcpu, loom.vcpu]
        for c in loom.cpus.values():
            if not for_running or c.nrunning() == 0:
                cands.append(c)
        return self.rng.choice(cands)

    def prop_state(self, th):
        r = self.rng
        s = th.state
        if s == UNKNOWN:
            cpu = self._free_cpu(th)
            return (th.key, "OHx", obs.i32(cpu.index, th.tid, 0))
        if th.out_of_cpu:
            return None
        if s == RUNNING:
            return (th.key, r.choice(["OHp", "OHc", "OHc"]), b"")
        if s == COOLING:
            return (th.key, "OHp", b"")
        if s == PAUSED:
            if r.random() < 0.5:
                return (th.key, "OHw", b"")
        if s in (PAUSED, WARMING):
            if th.cpu.virtual or th.cpu.nrunning() == 0:
                return (th.key, "OHr", b"")
        return None

    def prop_aff(self, th):
        r = self.rng
        if th.state in (UNKNOWN, DEAD) or th.out_of_cpu:
            return None
        if th.active and r.random() < 0.5:
            cpu = self._free_cpu(th, th.running)
            return (th.key, "OAs", obs.i32(cpu.index))
        # remote: some other live thread of the loom as target
        tg = [t for t in self.threads() if t.loom is th.loom and t is not th and t.state not in (UNKNOWN, DEAD)]
        if not tg:
            return None
        t = r.choice(tg)
        cpu = self._free_cpu(t, t.running)
        if cpu is t.cpu:
            return None      # not an affinity change (unspecified, see DESIGN C05)
        return (th.key, "OAr", obs.i32(cpu.index, t.tid))

    def prop_model(self, th):
        r = self.rng
        ms = [m for m in self.enabled if m not in "OK"]
        if not ms:
            return None
        mc = r.choice(sorted(ms))
        need = self.sp["models"][mc]["need"]
        if (need == "active" and not th.active) or (need == "running" and not th.running):
            return None
        if mc == "V" and th.out_of_cpu:
            return None
        chans = self.sp["models"][mc]["channels"]
        stacks = [cn for cn, c in chans.items() if c["kind"] == "stack"]
        cn = r.choice(sorted(stacks))
        st = th.ch[(mc, cn)]
        if st and r.random() < 0.45:
            top = st[-1]
            if self.wrapped_pause and mc in "V6" and cn == "subsystem" and len(st) >= 2 \
                    and st[-2] == refemu.TASK_BODY[mc] and th.bodies[mc] and th.bodies[mc][-1].state == "paused":
                return None
            mcv = self.pop_by_label.get((mc, cn, top))
            if mcv:
                return (th.key, mcv, b"")
            return None
        x = r.random()
        if x < 0.12 and "idle" in chans:
            cur = th.ch[(mc, "idle")]
            opts = [(m, e) for (m, e) in self.by_model[mc] if e["op"] == "set" and e["label"] != cur]
            m, e = r.choice(opts)
            return (th.key, m, b"")
        if x < 0.2:
            ig = [(m, e) for (m, e) in self.by_model[mc] if e["op"] == "ign"]
            if ig:
                return (th.key, r.choice(ig)[0], b"")
        pushes = [(m, e) for (m, e) in self.by_model[mc] if e["op"] == "push" and e["ch"] == cn]
        if not pushes or len(st) >= 40:
            return None
        m, e = r.choice(pushes)
        if not chans[cn]["dup"] and st and st[-1] == e["label"]:
            return None
        return (th.key, m, b"")

    def prop_kernel(self, th):
        if "K" not in self.enabled or th.state in (UNKNOWN, DEAD):
            return None
        return (th.key, "KCI" if th.out_of_cpu else "KCO", b"")

    def prop_misc(self, th):
        r = self.rng
        if th.state in (UNKNOWN, DEAD) or th.out_of_cpu:
            return None
        x = r.random()
        if x < 0.4:
            cur = th.ch[("O", "flush")]
            return (th.key, "OF]" if cur else "OF[", b"")
        if x < 0.7:
            return (th.key, "OB.", b"")
        return (th.key, r.choice(["OU[", "OU]"]), b"")

    def prop_mark(self, th):
        r = self.rng
        if not self.marks or th.state in (UNKNOWN, DEAD) or th.out_of_cpu:
            return None
        ty = r.choice(sorted(self.marks))
        if self.marks[ty] == "single":
            return (th.key, "OM=", obs.i64(r.randint(1, 50)) + obs.i32(ty))
        st = th.mark[ty]
        if st and r.random() < 0.5:
            return (th.key, "OM]", obs.i64(st[-1]) + obs.i32(ty))
        if len(st) < 20:
            return (th.key, "OM[", obs.i64(r.randint(1, 50)) + obs.i32(ty))
        return None

    def prop_task(self, th):
        r = self.rng
        ms = [m for m in "V6" if m in self.enabled]
        if not ms or not self.tasks or not th.active:
            return None
        mc = r.choice(ms)
        if mc == "V" and th.out_of_cpu:
            return None
        info = th.proc.tinfo[mc]
        x = r.random()
        if not info.types or x < (0.2 if len(info.types) < 3 else 0.05):
            tid = self.next_type; self.next_type += 1
            if self.local_ids:
                ck = (th.key[0], th.key[1], mc, "type")
                tid = self._local[ck] = self._local.get(ck, 0) + 1
            # half of the labels are the same strings in every process (SPMD codes
            # register the same task types), the others are private to this type
            label = r.choice(["", "main", "work", "io", "t%d" % tid, "type with spaces %d" % tid, "t%d" % tid, "x" * 30 + str(tid)]
                             + ([r.choice(boundary_labels())] if r.random() < 0.3 else []))
            return (th.key, mc + "Yc", obs.u32(tid) + label.encode() + b"\0", True)
        if not info.tasks or x < 0.25:
            task = self.next_task; self.next_task += 1
            if self.local_ids:
                ck = (th.key[0], th.key[1], mc, "task")
                task = self._local[ck] = self._local.get(ck, 0) + 1
            ty = r.choice(sorted(info.types))
            v = "c" if (mc == "6" or r.random() < 0.75) else "C"
            return (th.key, mc + "T" + v, obs.u32(task, ty))
        stack = th.bodies[mc]

        def pl(task, body):
            if mc == "6":
                return obs.u32(task.id)
            return obs.u32(task.id, 0 if not task.parallel else body)
        top = stack[-1] if stack else None
        if top is not None and r.random() < 0.6:
            if top.state == "running":
                if top.task.can_pause and r.random() < 0.5:
                    ss = th.ch[(mc, "subsystem")]
                    if self.wrapped_pause and ss and ss[-1] == refemu.TASK_BODY[mc]:
                        # real runtimes pause inside a blocking/API region
                        return (th.key, "VAp" if mc == "V" else "6Bb", b"")
                    return (th.key, mc + "Tp", pl(top.task, top.id))
                # end needs "Task: In body" on top of the subsystem stack
                ss = th.ch[(mc, "subsystem")]
                if ss and ss[-1] == refemu.TASK_BODY[mc]:
                    return (th.key, mc + "Te", pl(top.task, top.id))
                return None
            if top.state == "paused":
                ss = th.ch[(mc, "subsystem")]
                if self.wrapped_pause and ss and ss[-1] == refemu.TASK_BODY[mc]:
                    return None
                return (th.key, mc + "Tr", pl(top.task, top.id))
        # execute some task
        if top is not None and top.state == "running" and not top.task.relax:
            return None
        ss = th.ch[(mc, "subsystem")]
        if mc == "6" and ss and ss[-1] == refemu.TASK_BODY[mc]:
            return None      # would re-enter the innermost region
        cands = []
        for t in info.tasks.values():
            if t.parallel:
                bid = r.randint(1, 4)
                b = t.bodies.get(bid)
                if b is None:
                    cands.append((t, bid))
            else:
                b = t.bodies.get(1)
                if b is None or (b.state == "dead" and t.resurrect):
                    cands.append((t, 1))
        if not cands:
            return None
        t, bid = r.choice(cands)
        return (th.key, mc + "Tx", pl(t, bid))

    # -- main loop ------------------------------------------------------------
    def step(self):
        r = self.rng
        live = [t for t in self.threads() if t.state != DEAD]
        if not live:
            return False
        th = r.choice(live)
        kinds = [k for k, w in self.w.items() for _ in range(w)]
        kind = r.choice(kinds)
        if th.state == UNKNOWN:
            kind = "state"
            # now and then something happens before the thread's first state event:
            # a flush of the buffer (ovni_flush() before OHx) or a kernel context switch
            if th.out_of_cpu:
                return self.emit(th.key, "KCI", b"")
            if r.random() < 0.15:
                if "K" in self.enabled and r.random() < 0.5:
                    return self.emit(th.key, "KCO", b"")
                cur = th.ch[("O", "flush")]
                return self.emit(th.key, "OF]" if cur else "OF[", b"")
        p = getattr(self, "prop_" + kind)(th)
        if p is None:
            return False
        return self.emit(*p)

    def run(self, nsteps):
        for _ in range(nsteps):
            self.step()
        return self

    def finish(self, close_regions=True):
        """Bring every thread to Dead.  With close_regions every open stack
        region is closed first (needed for lint mode)."""
        order = sorted(self.threads(), key=lambda t: 0 if t.state == RUNNING else 1)
        for th in order:
            if th.out_of_cpu and th.state != DEAD:
                # (also a thread switched out before its first execute event)
                assert self.emit(th.key, "KCI")
            if th.state == UNKNOWN:
                cpu = th.loom.vcpu
                assert self.emit(th.key, "OHx", obs.i32(-1, th.tid, 0))
            if th.state == DEAD:
                continue
            if th.state == COOLING:
                assert self.emit(th.key, "OHp")
            if th.state in (PAUSED, WARMING):
                if not th.cpu.virtual and th.cpu.nrunning() > 0:
                    # move to the virtual CPU first (remote set by itself is
                    # not possible while paused: use OAr from the thread)
                    assert self.emit(th.key, "OAr", obs.i32(-1, th.tid))
                assert self.emit(th.key, "OHr")
            if close_regions:
                self._close(th)
            assert self.emit(th.key, "OHe"), "cannot end thread"
        return self.hist

    def _close(self, th):
        # tasks first (they interleave with the subsystem stack)
        guard = 0
        while guard < 3000:
            guard += 1
            done = True
            for mc in sorted(self.enabled):
                if mc in "OK":
                    continue
                for cn, c in self.sp["models"][mc]["channels"].items():
                    if c["kind"] != "stack":
                        continue
                    st = th.ch[(mc, cn)]
                    if not st:
                        continue
                    done = False
                    top = st[-1]
                    if mc in "V6" and cn == "subsystem" and top == refemu.TASK_BODY[mc]:
                        b = th.bodies[mc][-1]
                        pl = obs.u32(b.task.id) if mc == "6" else obs.u32(b.task.id, b.id if b.task.parallel else 0)
                        if b.state == "paused":
                            assert self.emit(th.key, mc + "Tr", pl)
                        assert self.emit(th.key, mc + "Te", pl)
                    else:
                        if mc in "V6" and cn == "subsystem" and th.bodies[mc] and th.bodies[mc][-1].state == "paused" \
                                and len(st) >= 2 and st[-2] == refemu.TASK_BODY[mc]:
                            b = th.bodies[mc][-1]
                            pl = obs.u32(b.task.id) if mc == "6" else obs.u32(b.task.id, b.id if b.task.parallel else 0)
                            assert self.emit(th.key, mc + "Tr", pl)
                        assert self.emit(th.key, self.pop_by_label[(mc, cn, top)])
            if done:
                break
        for ty, kind in self.marks.items():
            if kind == "stack":
                while th.mark[ty]:
                    assert self.emit(th.key, "OM]", obs.i64(th.mark[ty][-1]) + obs.i32(ty))
        if th.ch[("O", "flush")]:
            assert self.emit(th.key, "OF]")


def views_along(desc, enabled, marks, hist):
    """Replays a legal history on a fresh model and returns per-event
    (thread_view, cpu_view) including base and model rows."""
    m = refemu.FullSystem(desc, enabled, marks)
    tv, cv = [], []
    for (c, k, mcv, p, j) in hist:
        m.event(k, mcv, p, j)
        a = m.thread_view(); a.update(m.model_thread_view())
        b = m.cpu_view(); b.update(m.model_cpu_view())
        tv.append(a); cv.append(b)
    return m, tv, cv
