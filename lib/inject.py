"""strace-based crash and fault injection for the rtdrv driver.

strace -e inject=<syscall>:signal=KILL:when=k kills the tracee on entry to the
k-th invocation of that syscall (counted per syscall and per thread), so the
on-disk state is exactly the one after the preceding system calls.
error=<E> makes that invocation fail instead (the call is not executed)."""

import os
import re
import subprocess

from core import run_retry, HarnessError

FILE_SYSCALLS = ["mkdir", "openat", "open", "write", "close", "read", "newfstatat", "fstat", "stat", "lstat",
                 "getdents64", "unlink", "unlinkat", "rmdir", "lseek", "rename", "renameat", "renameat2", "fsync", "fdatasync",
                 "pwrite64", "writev", "pwritev", "sendfile", "copy_file_range", "link", "linkat", "ftruncate"]

LINE = re.compile(r"^(\d+)\s+(\w+)\((.*)$")


def strace_argv(logpath, inject=None, trace=None, paths=None):
    """paths: only system calls that touch one of these paths are traced (and
    counted, and injected): strace -P."""
    a = ["strace", "-f", "-y", "-qq", "-o", logpath, "-e", "trace=" + ",".join(trace or FILE_SYSCALLS)]
    for p in paths or []:
        a += ["-P", p]
    if inject:
        a += ["-e", "inject=" + inject]
    return a


def parse_log(path):
    """Returns list of (pid, syscall, rest-of-line)."""
    out = []
    try:
        with open(path, errors="replace") as f:
            for l in f:
                m = LINE.match(l)
                if m:
                    out.append((int(m.group(1)), m.group(2), m.group(3).rstrip("\n")))
    except OSError:
        pass
    return out


def baseline(drv, script, workdir, env, marker):
    """Runs once under strace without injection.  Returns (result, calls)
    where calls is the parsed log; `marker` is a substring identifying the
    first runtime call (e.g. the trace directory path)."""
    import rt
    log = os.path.join(workdir, "strace.log")
    res = rt.run_script(drv, script, workdir, env=env, timeout=120, inline=env.get("RTDRV_INLINE") == "1",
                        wrapper=strace_argv(log))
    return res, parse_log(log)


def points_after(calls, markers, syscalls=None):
    """(syscall, k, pid, text) for every invocation whose decoded arguments
    (paths, and fd paths thanks to strace -y) mention one of `markers`, i.e.
    the runtime's own file system calls on the trace / temporary directories.
    k counts that thread's invocations of that syscall from process start,
    which is what strace's when= counts.  Only usable when the baseline is
    deterministic."""
    if isinstance(markers, str):
        markers = [markers]
    counts = {}
    pts = []
    for pid, sc, rest in calls:
        if "resumed" in rest[:20]:
            continue
        key = (pid, sc)
        counts[key] = counts.get(key, 0) + 1
        if any(m in rest for m in markers) and (syscalls is None or sc in syscalls):
            pts.append((sc, counts[key], pid, rest[:160]))
    return pts


def fired_kill(logpath):
    try:
        with open(logpath, errors="replace") as f:
            t = f.read()
    except OSError:
        return False
    return "+++ killed by SIGKILL +++" in t


def fired_error(logpath):
    try:
        with open(logpath, errors="replace") as f:
            t = f.read()
    except OSError:
        return False
    return "(INJECTED)" in t


def strace_works():
    r = subprocess.run(["strace", "-f", "-o", "/dev/null", "true"], stdout=subprocess.PIPE, stderr=subprocess.PIPE)
    return r.returncode == 0
