"""Independent reader/writer of ovni binary streams and stream metadata,
written from doc/user/runtime/trace_spec.md only (shares no code with
libovni).  Events are tuples (clock, mcv, payload, jumbo) where payload is
the normal payload bytes for a normal event and the jumbo *data* for a jumbo
event (the 4-byte size field is implied)."""

import json
import os
import struct

MAGIC = b"ovni"
HEADER = MAGIC + struct.pack("<I", 1)
MAX_EV_BUF = 2 * 1024 * 1024


class Ev:
    __slots__ = ("clock", "mcv", "payload", "jumbo", "off", "raw")

    def __init__(self, clock, mcv, payload=b"", jumbo=False, off=None, raw=None):
        self.clock, self.mcv, self.payload, self.jumbo = clock, mcv, payload, jumbo
        self.off, self.raw = off, raw

    def key(self):
        return (self.clock, self.mcv, bytes(self.payload), bool(self.jumbo))

    def __repr__(self):
        p = self.payload
        ps = p.hex() if len(p) <= 20 else "%s..(%d bytes)" % (p[:8].hex(), len(p))
        return "Ev(%d,%s,%s%s)" % (self.clock, self.mcv, ps, ",J" if self.jumbo else "")

    def encode(self):
        return encode(self.clock, self.mcv, self.payload, self.jumbo)


def mcvbytes(mcv):
    return mcv if isinstance(mcv, (bytes, bytearray)) else mcv.encode("latin-1")


def encode(clock, mcv, payload=b"", jumbo=False):
    m = mcvbytes(mcv)
    assert len(m) == 3
    if jumbo:
        flags = 0x10 | 3   # payload of 4 bytes holding the size
        return struct.pack("<B3sQI", flags, m, clock & 0xFFFFFFFFFFFFFFFF, len(payload)) + bytes(payload)
    n = len(payload)
    assert n == 0 or 2 <= n <= 16, n
    flags = 0 if n == 0 else n - 1
    return struct.pack("<B3sQ", flags, m, clock & 0xFFFFFFFFFFFFFFFF) + bytes(payload)


class DecodeError(Exception):
    def __init__(self, msg, off, events):
        Exception.__init__(self, "%s at offset %d" % (msg, off))
        self.msg, self.off, self.events = msg, off, events


def decode(data, strict_flags=True):
    """Decode a whole stream.obs; returns list of Ev; raises DecodeError with
    the events decoded so far when the bytes are not exactly tiled."""
    if len(data) < 8:
        raise DecodeError("short header", 0, [])
    if data[:4] != MAGIC:
        raise DecodeError("bad magic", 0, [])
    if struct.unpack_from("<I", data, 4)[0] != 1:
        raise DecodeError("bad version", 4, [])
    off = 8
    evs = []
    n = len(data)
    while off < n:
        if off + 12 > n:
            raise DecodeError("truncated event header", off, evs)
        flags = data[off]
        mcv = data[off + 1:off + 4]
        clock = struct.unpack_from("<Q", data, off + 4)[0]
        low = flags & 0x0f
        psize = 0 if low == 0 else low + 1
        if strict_flags and (flags & 0xe0):
            raise DecodeError("reserved flag bits set (0x%02x)" % flags, off, evs)
        if flags & 0x10:
            if psize != 4:
                raise DecodeError("jumbo event with payload size %d" % psize, off, evs)
            if off + 16 > n:
                raise DecodeError("truncated jumbo size", off, evs)
            jsz = struct.unpack_from("<I", data, off + 12)[0]
            end = off + 16 + jsz
            if end > n:
                raise DecodeError("truncated jumbo data", off, evs)
            evs.append(Ev(clock, mcv.decode("latin-1"), bytes(data[off + 16:end]), True, off, bytes(data[off:end])))
            off = end
        else:
            end = off + 12 + psize
            if end > n:
                raise DecodeError("truncated payload", off, evs)
            evs.append(Ev(clock, mcv.decode("latin-1"), bytes(data[off + 12:end]), False, off, bytes(data[off:end])))
            off = end
    return evs


def decode_file_light(path, strict_flags=True):
    """Like decode_file for very large streams: the file is mapped, jumbo data is
    not copied (payload b"", raw b"")."""
    import mmap
    with open(path, "rb") as f:
        n = os.fstat(f.fileno()).st_size
        if n < 8:
            raise DecodeError("short header", 0, [])
        data = mmap.mmap(f.fileno(), 0, access=mmap.ACCESS_READ)
    try:
        if data[:4] != MAGIC:
            raise DecodeError("bad magic", 0, [])
        off = 8
        evs = []
        while off < n:
            if off + 12 > n:
                raise DecodeError("truncated event header", off, evs)
            flags = data[off]
            mcv = data[off + 1:off + 4]
            clock = struct.unpack_from("<Q", data, off + 4)[0]
            low = flags & 0x0f
            psize = 0 if low == 0 else low + 1
            if strict_flags and (flags & 0xe0):
                raise DecodeError("reserved flag bits set (0x%02x)" % flags, off, evs)
            if flags & 0x10:
                if psize != 4:
                    raise DecodeError("jumbo event with payload size %d" % psize, off, evs)
                if off + 16 > n:
                    raise DecodeError("truncated jumbo size", off, evs)
                end = off + 16 + struct.unpack_from("<I", data, off + 12)[0]
                if end > n:
                    raise DecodeError("truncated jumbo data", off, evs)
                evs.append(Ev(clock, mcv.decode("latin-1"), b"", True, off, b""))
            else:
                end = off + 12 + psize
                if end > n:
                    raise DecodeError("truncated payload", off, evs)
                evs.append(Ev(clock, mcv.decode("latin-1"), bytes(data[off + 12:end]), False, off, b""))
            off = end
        return evs
    finally:
        data.close()


def decode_file(path, strict_flags=True):
    with open(path, "rb") as f:
        return decode(f.read(), strict_flags)


def encode_stream(events):
    out = bytearray(HEADER)
    for e in events:
        if isinstance(e, Ev):
            out += e.encode()
        elif isinstance(e, (bytes, bytearray)):
            out += e
        else:
            out += encode(*e)
    return bytes(out)


# -- metadata ----------------------------------------------------------------

def thread_meta(tid, pid, loom, app_id=1, cpus=None, require=None, rank=None,
                nranks=None, finished=True, extra=None, lib=True):
    o = {"part": "thread", "tid": tid, "pid": pid, "loom": loom}
    if lib:
        o["lib"] = {"version": "1.11.0", "commit": "verif"}
    if app_id is not None:
        o["app_id"] = app_id
    req = {"ovni": "1.1.0"}
    if require:
        req.update(require)
    o["require"] = req
    if cpus is not None:
        o["loom_cpus"] = [{"index": i, "phyid": p} for (i, p) in cpus]
    if rank is not None:
        o["rank"] = rank
    if nranks is not None:
        o["nranks"] = nranks
    if finished:
        o["finished"] = 1
    m = {"version": 3, "ovni": o}
    if extra:
        for k, v in extra.items():
            if k == "ovni":
                o.update(v)
            else:
                m[k] = v
    return m


def stream_dir(tracedir, loom, pid, tid):
    return os.path.join(tracedir, "loom.%s" % loom, "proc.%d" % pid, "thread.%d" % tid)


def write_stream(tracedir, loom, pid, tid, meta, events, raw=None):
    d = stream_dir(tracedir, loom, pid, tid)
    os.makedirs(d, exist_ok=True)
    with open(os.path.join(d, "stream.json"), "w") as f:
        if isinstance(meta, (bytes, str)):
            f.write(meta if isinstance(meta, str) else meta.decode("latin-1"))
        else:
            json.dump(meta, f, indent=1)
    with open(os.path.join(d, "stream.obs"), "wb") as f:
        f.write(raw if raw is not None else encode_stream(events))
    return d


def find_streams(tracedir):
    """All directories below tracedir holding a stream.json, sorted."""
    res = []
    for root, dirs, files in os.walk(tracedir):
        if "stream.json" in files or "stream.obs" in files:
            res.append(root)
    return sorted(res)


# payload helpers
def i32(*v):
    return struct.pack("<%di" % len(v), *v)


def u32(*v):
    return struct.pack("<%dI" % len(v), *v)


def i64(*v):
    return struct.pack("<%dq" % len(v), *v)


def u64(*v):
    return struct.pack("<%dQ" % len(v), *v)
