"""Independent parser of the Paraver files the emulator writes (.prv, .pcf,
.row) and reconstruction of per-(row,type) step functions."""

import os
import re

HDR = re.compile(r"^#Paraver \(([^)]*)\):(\d+)_ns:0:1:1\((\d+):1\)$")


class PrvError(Exception):
    pass


class Prv:
    def __init__(self, path):
        self.path = path
        self.lines = []      # (row, time, type, value) in file order
        with open(path) as f:
            first = f.readline().rstrip("\n")
            m = HDR.match(first)
            if not m:
                raise PrvError("bad header line: %r" % first)
            self.duration = int(m.group(2))
            self.nrows = int(m.group(3))
            for ln, l in enumerate(f, 2):
                l = l.rstrip("\n")
                if not l:
                    raise PrvError("empty line %d" % ln)
                p = l.split(":")
                if len(p) != 8 or p[0] != "2" or p[1] != "0" or p[2] != "1" or p[3] != "1":
                    raise PrvError("malformed line %d: %r" % (ln, l))
                try:
                    self.lines.append((int(p[4]), int(p[5]), int(p[6]), int(p[7])))
                except ValueError:
                    raise PrvError("non-numeric field in line %d: %r" % (ln, l))

    def types(self):
        return sorted(set(t for (_, _, t, _) in self.lines))

    def timeline(self):
        """dict (row,type) -> list of (time, value) in file order."""
        tl = {}
        for (r, t, ty, v) in self.lines:
            tl.setdefault((r, ty), []).append((t, v))
        return tl

    def states_at(self, times):
        """Reconstruct, for every (row,type), the value after all lines
        with time <= T for each T in the ascending list `times`.  Returns
        list of dicts (one per T) holding only non-zero values."""
        res = []
        cur = {}
        i = 0
        L = self.lines
        for T in times:
            while i < len(L) and L[i][1] <= T:
                r, t, ty, v = L[i]
                if v == 0:
                    cur.pop((r, ty), None)
                else:
                    cur[(r, ty)] = v
                i += 1
            res.append(dict(cur))
        return res


class Pcf:
    def __init__(self, path):
        self.types = {}     # type id -> (title, {value: label})
        self.dup = []
        self.dupvals = []
        cur = None
        mode = None
        with open(path) as f:
            for l in f:
                l = l.rstrip("\n")
                if l.startswith("EVENT_TYPE"):
                    mode = "type"; cur = None
                    continue
                if l.startswith("VALUES"):
                    mode = "values"
                    continue
                if not l.strip():
                    mode = None
                    continue
                if mode == "type":
                    m = re.match(r"^0 (\d+)", l)
                    if m:
                        cur = int(m.group(1))
                        title = l[len("0 %-10d " % cur):]
                        if cur in self.types:
                            self.dup.append(cur)
                        self.types[cur] = (title, {})
                elif mode == "values" and cur is not None:
                    m = re.match(r"^(-?\d+)", l)
                    if m:
                        val = int(m.group(1))
                        if val in self.types[cur][1]:
                            self.dupvals.append((cur, val))
                        self.types[cur][1][val] = l[len("%-4d " % val):]

    def label(self, ty, value):
        t = self.types.get(ty)
        if t is None:
            return None
        return t[1].get(value)

    def title(self, ty):
        t = self.types.get(ty)
        return t[0] if t else None


class Row:
    def __init__(self, path):
        with open(path) as f:
            lines = [l.rstrip("\n") for l in f]
        self.raw = lines
        self.sections = {}
        i = 0
        while i < len(lines):
            m = re.match(r"^LEVEL (\w+) SIZE (\d+)$", lines[i])
            if m:
                n = int(m.group(2))
                self.sections[m.group(1)] = (n, lines[i + 1:i + 1 + n])
                i += 1 + n
            else:
                i += 1

    @property
    def threads(self):
        return self.sections.get("THREAD", (0, []))[1]

    @property
    def declared(self):
        return self.sections.get("THREAD", (0, []))[0]


class Out:
    """All Paraver outputs of one emulation."""

    def __init__(self, tracedir, names=("thread", "cpu")):
        self.prv, self.pcf, self.row = {}, {}, {}
        for n in names:
            p = os.path.join(tracedir, n + ".prv")
            if os.path.exists(p):
                self.prv[n] = Prv(p)
                self.pcf[n] = Pcf(os.path.join(tracedir, n + ".pcf"))
                self.row[n] = Row(os.path.join(tracedir, n + ".row"))


def read_bytes(tracedir, names=("thread", "cpu")):
    out = {}
    for n in names:
        for ext in ("prv", "pcf", "row"):
            p = os.path.join(tracedir, "%s.%s" % (n, ext))
            if os.path.exists(p):
                with open(p, "rb") as f:
                    out["%s.%s" % (n, ext)] = f.read()
    return out
