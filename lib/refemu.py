"""Reference model of the emulator, written from the documentation
(doc/user/emulation/*.md, doc/user/runtime/trace_spec.md) and the property
statements.  It is an executable specification used as oracle; it shares no
code with the emulator.

System description:
  looms: list of dict(name, cpus=[(index, phyid)...],
                      procs=[dict(pid, appid, rank, nranks, threads=[tid...])])
History: list of (clock, key, mcv, payload[, jumbo]) with key=(loom, pid, tid).
"""

import struct

UNKNOWN, RUNNING, PAUSED, DEAD, COOLING, WARMING = (
    "Unknown", "Running", "Paused", "Dead", "Cooling", "Warming")
ACTIVE = (RUNNING, COOLING, WARMING)


class Reject(Exception):
    """The history is illegal at this event."""


class Thread:
    def __init__(self, loom, proc, tid):
        self.loom, self.proc, self.tid = loom, proc, tid
        self.state = UNKNOWN
        self.cpu = None
        self.row = None
        self.out_of_cpu = False
        self.ext = {}      # per-model state (stack channels...)

    @property
    def active(self):
        return self.state in ACTIVE

    @property
    def running(self):
        return self.state == RUNNING

    @property
    def key(self):
        return (self.loom.name, self.proc.pid, self.tid)


class Cpu:
    def __init__(self, loom, index, phyid, virtual=False):
        self.loom, self.index, self.phyid, self.virtual = loom, index, phyid, virtual
        self.threads = []
        self.row = None
        self.name = None

    def nrunning(self):
        return sum(1 for t in self.threads if t.state == RUNNING)

    def running_thread(self):
        r = [t for t in self.threads if t.state == RUNNING]
        return r[0] if len(r) == 1 else None

    def active_thread(self):
        r = [t for t in self.threads if t.state in ACTIVE]
        return r[0] if len(r) == 1 else None


class Proc:
    def __init__(self, loom, d):
        self.loom = loom
        self.pid = d["pid"]
        self.appid = d.get("appid", 1)
        self.rank = d.get("rank")
        self.nranks = d.get("nranks")
        self.threads = {}


class Loom:
    def __init__(self, d):
        self.name = d["name"]
        self.cpus = {}
        for (i, p) in d["cpus"]:
            self.cpus[i] = Cpu(self, i, p)
        self.vcpu = Cpu(self, -1, -1, True)
        self.procs = {}
        self.offset = d.get("offset", 0)

    def get_cpu(self, index):
        if index == -1:
            return self.vcpu
        return self.cpus.get(index)

    def find_thread(self, tid):
        for p in self.procs.values():
            if tid in p.threads:
                return p.threads[tid]
        return None


class System:
    def __init__(self, desc):
        self.looms = {}
        for ld in desc["looms"]:
            l = Loom(ld)
            self.looms[l.name] = l
            for pd in ld["procs"]:
                p = Proc(l, pd)
                l.procs[p.pid] = p
                for tid in pd["threads"]:
                    p.threads[tid] = Thread(l, p, tid)
        self._order()

    def _order(self):
        looms = list(self.looms.values())

        def rank_enabled(l):
            return any(p.rank is not None for p in l.procs.values())
        by_rank = all(rank_enabled(l) for l in looms)
        if by_rank:
            looms.sort(key=lambda l: min(p.rank for p in l.procs.values() if p.rank is not None))
        else:
            looms.sort(key=lambda l: l.name.encode("latin-1"))
        self.loom_order = looms
        self.thread_rows = []
        self.cpu_rows = []
        for li, l in enumerate(looms):
            procs = list(l.procs.values())
            if rank_enabled(l):
                procs.sort(key=lambda p: p.rank)
            else:
                procs.sort(key=lambda p: p.pid)
            for p in procs:
                for tid in sorted(p.threads):
                    t = p.threads[tid]
                    t.row = len(self.thread_rows) + 1
                    t.rowname = "TH %d.%d" % (p.appid, tid)
                    self.thread_rows.append(t)
            for c in sorted(l.cpus.values(), key=lambda c: c.phyid):
                c.row = len(self.cpu_rows) + 1
                c.name = " CPU %d.%d" % (li, c.phyid)
                self.cpu_rows.append(c)
            l.vcpu.row = len(self.cpu_rows) + 1
            l.vcpu.name = "vCPU %d.*" % li
            self.cpu_rows.append(l.vcpu)

    def thread(self, key):
        return self.looms[key[0]].procs[key[1]].threads[key[2]]

    # -- ovni model: thread life cycle and affinity ------------------------
    def _check_oversub(self, cpu):
        if cpu is not None and not cpu.virtual and cpu.nrunning() > 1:
            raise Reject("physical %s oversubscribed" % cpu.name)

    def ovni_event(self, th, mcv, payload):
        if th.out_of_cpu:
            raise Reject("thread out of CPU")
        c, v = mcv[1], mcv[2]
        if c == "H":
            self._thread_event(th, v, payload)
        elif c == "A":
            self._affinity_event(th, v, payload)
        else:
            raise KeyError(mcv)

    def _thread_event(self, th, v, payload):
        s = th.state
        if v == "x":
            if s != UNKNOWN:
                # (dead -> execute is left open by the property; callers
                # never generate it)
                raise Reject("execute in state %s" % s)
            if len(payload) < 4:
                raise Reject("execute without payload")
            idx = struct.unpack_from("<i", payload)[0]
            cpu = th.loom.get_cpu(idx)
            if cpu is None:
                raise Reject("no CPU with index %d" % idx)
            th.cpu = cpu
            th.state = RUNNING
            cpu.threads.append(th)
            self._check_oversub(cpu)
        elif v == "e":
            if s not in (RUNNING, COOLING):
                raise Reject("end in state %s" % s)
            th.state = DEAD
            th.cpu.threads.remove(th)
            th.cpu = None
        elif v == "p":
            if s not in (RUNNING, COOLING):
                raise Reject("pause in state %s" % s)
            th.state = PAUSED
        elif v == "r":
            if s not in (PAUSED, WARMING):
                raise Reject("resume in state %s" % s)
            th.state = RUNNING
            self._check_oversub(th.cpu)
        elif v == "c":
            if s != RUNNING:
                raise Reject("cool in state %s" % s)
            th.state = COOLING
        elif v == "w":
            if s != PAUSED:
                raise Reject("warm in state %s" % s)
            th.state = WARMING
        elif v == "C":
            pass
        else:
            raise Reject("unknown thread event")

    def _affinity_event(self, th, v, payload):
        if v == "s":
            if th.cpu is None:
                raise Reject("affinity set without CPU")
            if not th.active:
                raise Reject("affinity set while not active")
            if len(payload) != 4:
                raise Reject("bad payload size")
            cpu = th.loom.get_cpu(struct.unpack_from("<i", payload)[0])
            if cpu is None:
                raise Reject("no such CPU")
            self._migrate(th, cpu)
        elif v == "r":
            if len(payload) != 8:
                raise Reject("bad payload size")
            idx, tid = struct.unpack_from("<ii", payload)
            rt = th.proc.threads.get(tid) or th.loom.find_thread(tid)
            if rt is None:
                raise Reject("remote thread not found")
            if rt.state in (DEAD, UNKNOWN):
                raise Reject("remote thread %s" % rt.state)
            cpu = th.loom.get_cpu(idx)
            if cpu is None:
                raise Reject("no such CPU")
            self._migrate(rt, cpu)
        else:
            raise Reject("unknown affinity event")

    def _migrate(self, th, cpu):
        if th.cpu is cpu:
            return
        th.cpu.threads.remove(th)
        th.cpu = cpu
        cpu.threads.append(th)
        self._check_oversub(cpu)

    def all_dead(self):
        return all(t.state == DEAD for t in self.thread_rows)

    # -- expected views -------------------------------------------------------
    def thread_view(self):
        """{(row, type): label-or-number} of the base thread rows."""
        v = {}
        for t in self.thread_rows:
            if t.state != UNKNOWN:
                v[(t.row, 4)] = t.state
            if t.active:
                v[(t.row, 2)] = t.tid
            if t.cpu is not None:
                v[(t.row, 6)] = t.cpu.name
        return v

    def cpu_view(self):
        v = {}
        for c in self.cpu_rows:
            n = c.nrunning()
            if n:
                v[(c.row, 3)] = n
            r = c.running_thread()
            if r is not None:
                v[(c.row, 2)] = r.tid
                v[(c.row, 1)] = r.proc.pid
        return v


# ===========================================================================
# Model channels (all eight models), tasks, marks, views
# ===========================================================================
import json as _json
import os as _os

_SPEC = None


def spec():
    global _SPEC
    if _SPEC is None:
        p = _os.path.join(_os.path.dirname(_os.path.dirname(_os.path.abspath(__file__))), "spec", "events.json")
        with open(p) as f:
            _SPEC = _json.load(f)
    return _SPEC


MAX_STACK = 512
TASK_BODY = {"V": "Task: In body", "6": "Task: Running body"}
PCF_RESERVED = 100


class Body:
    def __init__(self, task, bid):
        self.task, self.id = task, bid
        self.state = "created"
        self.thread = None


class Task:
    def __init__(self, tid, ttype, parallel=False, resurrect=False, pause=True, relax=False):
        self.id, self.type = tid, ttype
        self.parallel, self.resurrect, self.can_pause, self.relax = parallel, resurrect, pause, relax
        self.bodies = {}


class TaskInfo:
    def __init__(self):
        self.types = {}    # id -> label
        self.tasks = {}


class FullSystem(System):
    """System + per-thread model channels.  `enabled` is the set of model
    characters required by the trace (O always)."""

    def __init__(self, desc, enabled="O", marks=None):
        System.__init__(self, desc)
        self.sp = spec()
        self.enabled = set(enabled) | {"O"}
        self.marks = marks or {}      # type -> "single" | "stack"
        for t in self.thread_rows:
            t.ch = {}
            for mc in self.enabled:
                for cn, c in self.sp["models"][mc]["channels"].items():
                    t.ch[(mc, cn)] = [] if c["kind"] == "stack" else None
                if mc in "V6":
                    t.ch[(mc, "idle")] = "Progressing"
            t.mark = {ty: ([] if k == "stack" else None) for ty, k in self.marks.items()}
            t.bodies = {"V": [], "6": []}   # body stacks, top = last
        for l in self.looms.values():
            for p in l.procs.values():
                p.tinfo = {"V": TaskInfo(), "6": TaskInfo()}

    # -- generic helpers ----------------------------------------------------
    def _chanspec(self, mc, cn):
        return self.sp["models"][mc]["channels"][cn]

    def _push(self, th, mc, cn, label):
        c = self._chanspec(mc, cn)
        st = th.ch[(mc, cn)]
        if not c["dup"] and st and st[-1] == label:
            raise Reject("re-entering the innermost open region %s" % label)
        if len(st) >= MAX_STACK:
            raise Reject("stack full")
        st.append(label)

    def _pop(self, th, mc, cn, label):
        st = th.ch[(mc, cn)]
        if not st:
            raise Reject("leave without enter (%s)" % label)
        if st[-1] != label:
            raise Reject("leave %s does not match innermost %s" % (label, st[-1]))
        st.pop()

    def _set(self, th, mc, cn, label):
        c = self._chanspec(mc, cn)
        if not c["dup"] and th.ch[(mc, cn)] == label:
            raise Reject("value %s already set" % label)
        th.ch[(mc, cn)] = label

    def _need(self, th, mc):
        need = self.sp["models"][mc]["need"]
        if need == "active" and not th.active:
            raise Reject("thread not active")
        if need == "running" and not th.running:
            raise Reject("thread not running")

    # -- dispatcher -----------------------------------------------------------
    def event(self, key, mcv, payload=b"", jumbo=False):
        th = self.thread(key)
        mc = mcv[0]
        if mc not in self.sp["models"]:
            raise Reject("unknown model %r" % mc)
        if mc not in self.enabled:
            raise Reject("model %s not enabled" % mc)
        if mc == "O":
            return self._ovni(th, mcv, payload, jumbo)
        if mc == "K":
            return self._kernel(th, mcv)
        self._need(th, mc)
        if mc == "V" and th.out_of_cpu:
            raise Reject("thread out of CPU")
        e = self.sp["events"].get(mcv)
        if e is None:
            raise Reject("unknown event %s" % mcv)
        if e["op"] == "special":
            return self._task_event(th, mcv, payload, jumbo)
        self._simple(th, mc, e)

    def _simple(self, th, mc, e):
        if e["op"] == "push":
            self._push(th, mc, e["ch"], e["label"])
        elif e["op"] == "pop":
            self._pop(th, mc, e["ch"], e["label"])
        elif e["op"] == "set":
            self._set(th, mc, e["ch"], e["label"])
        elif e["op"] == "ign":
            pass
        else:
            raise KeyError(e)

    def _kernel(self, th, mcv):
        if mcv == "KCO":
            self._push(th, "K", "cs", self.sp["events"]["KCO"]["label"])
            th.out_of_cpu = True
        elif mcv == "KCI":
            self._pop(th, "K", "cs", self.sp["events"]["KCO"]["label"])
            th.out_of_cpu = False
        else:
            raise Reject("unknown kernel event")

    def _ovni(self, th, mcv, payload, jumbo):
        if th.out_of_cpu:
            raise Reject("thread out of CPU")
        c, v = mcv[1], mcv[2]
        if c in "HA":
            return self.ovni_event(th, mcv, payload)
        if c == "F":
            if v == "[":
                self._set(th, "O", "flush", "Flushing")
            elif v == "]":
                self._set(th, "O", "flush", None)
            else:
                raise Reject("unknown flush event")
        elif c in "BU":
            pass          # value byte ignored (burst / unordered region)
        elif c == "C":
            if v != "n":
                raise Reject("unknown cpu event")
        elif c == "M":
            self._mark(th, v, payload)
        else:
            raise Reject("unknown ovni category")

    def _mark(self, th, v, payload):
        if len(payload) != 12:
            raise Reject("bad mark payload")
        value, ty = struct.unpack("<qi", payload)
        if ty not in self.marks:
            raise Reject("mark type %d not defined" % ty)
        kind = self.marks[ty]
        if value == 0:
            raise Reject("mark value 0")
        if v == "=":
            if kind != "single":
                raise Reject("set on a stack mark type")
            th.mark[ty] = value
        elif v == "[":
            if kind != "stack":
                raise Reject("push on a single mark type")
            if len(th.mark[ty]) >= MAX_STACK:
                raise Reject("stack full")
            th.mark[ty].append(value)
        elif v == "]":
            if kind != "stack":
                raise Reject("pop on a single mark type")
            if not th.mark[ty] or th.mark[ty][-1] != value:
                raise Reject("pop does not match top")
            th.mark[ty].pop()
        else:
            raise Reject("unknown mark event")

    # -- tasks --------------------------------------------------------------
    def _task_event(self, th, mcv, payload, jumbo):
        mc, c, v = mcv[0], mcv[1], mcv[2]
        info = th.proc.tinfo[mc]
        if c == "Y":
            if v != "c":
                raise Reject("unknown type event")
            if not jumbo:
                raise Reject("type create must be jumbo")
            if len(payload) < 5 or b"\0" not in payload[4:]:
                raise Reject("malformed type payload")
            tid = struct.unpack_from("<I", payload)[0]
            label = payload[4:payload.index(b"\0", 4)].decode("latin-1")
            if tid in info.types:
                raise Reject("type exists")
            if tid == 0:
                raise Reject("type id 0")
            info.types[tid] = label if label else "(unlabeled task type %d)" % tid
            return
        if v in "cC":
            if mc == "6" and v == "C":
                return          # legacy, ignored with a warning
            if len(payload) < 8 or (mc == "6" and len(payload) != 8):
                raise Reject("bad payload")
            task, ty = struct.unpack_from("<II", payload)
            if task in info.tasks:
                raise Reject("task exists")
            if ty not in info.types:
                raise Reject("unknown type")
            if mc == "V":
                t = Task(task, ty, parallel=(v == "C"), resurrect=(v == "c"), pause=(v == "c"))
            else:
                t = Task(task, ty, pause=True, relax=True)
            info.tasks[task] = t
            return
        if v not in "xepr":
            raise Reject("unknown task event")
        if len(payload) < 4:
            raise Reject("missing task id")
        task_id = struct.unpack_from("<I", payload)[0]
        if mc == "V":
            if len(payload) < 8:
                raise Reject("missing body id")
            body_id = struct.unpack_from("<I", payload, 4)[0]
        task = info.tasks.get(task_id)
        if task is None:
            raise Reject("unknown task")
        if mc == "V":
            if task.parallel:
                if body_id == 0:
                    raise Reject("parallel task needs body id > 0")
            else:
                if body_id != 0:
                    raise Reject("non-parallel task needs body id 0")
                body_id = 1
        else:
            body_id = 1
        stack = th.bodies[mc]
        prev = stack[-1] if stack and stack[-1].state == "running" else None
        body = task.bodies.get(body_id)
        if v == "x":
            if body is None:
                if not task.parallel and task.bodies:
                    raise Reject("second body for non-parallel task")
                body = Body(task, body_id)
                created = True
            else:
                created = False
            if body.state == "dead":
                if not task.resurrect:
                    raise Reject("task cannot run again")
            elif body.state != "created":
                raise Reject("execute in body state %s" % body.state)
            if body.thread is not None:
                raise Reject("body already on a stack")
            if prev is not None and not prev.task.relax:
                raise Reject("nesting over a running task")
            if created:
                task.bodies[body_id] = body
            body.state = "running"
            body.thread = th
            stack.append(body)
        else:
            if body is None:
                raise Reject("unknown body")
            if v == "p":
                if not task.can_pause:
                    raise Reject("task cannot pause")
                want = "running"
            elif v == "r":
                want = "paused"
            else:
                want = "running"
            if body.state != want:
                raise Reject("%s in body state %s" % (v, body.state))
            if body.thread is not th:
                raise Reject("body belongs to another thread")
            if stack[-1] is not body:
                raise Reject("body is not on top of the stack")
            if v == "p":
                body.state = "paused"
            elif v == "r":
                body.state = "running"
            else:
                body.state = "dead"
                stack.pop()
                body.thread = None
        # subsystem channel
        if v == "x":
            self._push(th, mc, "subsystem", TASK_BODY[mc])
        elif v == "e":
            self._pop(th, mc, "subsystem", TASK_BODY[mc])
        nxt = stack[-1] if stack and stack[-1].state == "running" else None
        if nxt is not None:
            t = nxt.task
            if t.id == 0:
                raise Reject("task id 0")
            if v in "xe" and prev is not None and prev is nxt:
                raise Reject("switch to the same body")
            self._setq(th, mc, "taskid", t.id)
            self._setq(th, mc, "type", info.types[t.type])
            if mc == "V":
                self._setq(th, mc, "bodyid", nxt.id)
                self._setq(th, mc, "appid", th.proc.appid)
            if th.proc.rank is not None:
                self._setq(th, mc, "rank", th.proc.rank + 1)
        else:
            for cn in ("taskid", "type", "bodyid", "appid", "rank"):
                if (mc, cn) in th.ch:
                    if cn == "rank" and th.proc.rank is None:
                        continue
                    th.ch[(mc, cn)] = None

    def _setq(self, th, mc, cn, val):
        c = self._chanspec(mc, cn)
        if not c["dup"] and th.ch[(mc, cn)] == val:
            raise Reject("same %s set again" % cn)
        th.ch[(mc, cn)] = val

    # -- views ----------------------------------------------------------------
    @staticmethod
    def _raw(v):
        if isinstance(v, list):
            return v[-1] if v else None
        return v

    @staticmethod
    def _shown(th, mode):
        return mode == "any" or (mode == "running" and th.running) or (mode == "active" and th.active)

    def model_thread_view(self):
        v = {}
        for t in self.thread_rows:
            for (mc, cn), val in t.ch.items():
                c = self._chanspec(mc, cn)
                raw = self._raw(val)
                if raw is not None and self._shown(t, c["th"]):
                    v[(t.row, c["type"])] = raw
            for ty, val in t.mark.items():
                raw = self._raw(val)
                if raw is not None and t.active:
                    v[(t.row, 100 + ty)] = raw
        return v

    def model_cpu_view(self):
        """Values may be OneOf(...) where the property allows alternatives."""
        v = {}
        for c in self.cpu_rows:
            r = c.running_thread()
            for mc in self.enabled:
                for cn, cs in self.sp["models"][mc]["channels"].items():
                    if r is not None:
                        raw = self._raw(r.ch[(mc, cn)])
                        if raw is not None:
                            v[(c.row, cs["type"])] = raw
                    elif cn == "idle":
                        v[(c.row, cs["type"])] = OneOf(None, "Resting")
            if r is not None:
                for ty, val in r.mark.items():
                    raw = self._raw(val)
                    if raw is not None:
                        v[(c.row, 100 + ty)] = raw
        return v

    def open_regions(self, lint_models="V6DMTP"):
        """Threads that still have open subsystem/function regions (lint)."""
        res = []
        for t in self.thread_rows:
            for (mc, cn), val in t.ch.items():
                if mc in lint_models and cn in ("subsystem", "function") and isinstance(val, list) and val:
                    res.append((t.tid, mc, cn, list(val)))
        return res


class OneOf:
    def __init__(self, *alts):
        self.alts = alts

    def __eq__(self, other):
        return other in self.alts

    def __ne__(self, other):
        return other not in self.alts

    def __hash__(self):
        return hash(self.alts)

    def __repr__(self):
        return "OneOf%r" % (self.alts,)
