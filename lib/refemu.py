"""Reference model of the emulator, written from the documentation
(doc/user/emulation/*.md, doc/user/runtime/trace_spec.md) and the property
statements.  It is an executable specification used as oracle; it shares no
code with the emulator.

System description:
  looms: list of dict(name, cpus=[(index, phyid)...],
                      procs=[dict(pid, appid, rank, nranks, threads=[tid...])])
History: list of (clock, key, mcv, payload[, jumbo]) with key=(loom, pid, tid).
"""

import struct

UNKNOWN, RUNNING, PAUSED, DEAD, COOLING, WARMING = (
    "Unknown", "Running", "Paused", "Dead", "Cooling", "Warming")
ACTIVE = (RUNNING, COOLING, WARMING)


class Reject(Exception):
    """The history is illegal at this event."""


class Thread:
    def __init__(self, loom, proc, tid):
        self.loom, self.proc, self.tid = loom, proc, tid
        self.state = UNKNOWN
        self.cpu = None
        self.row = None
        self.out_of_cpu = False
        self.ext = {}      # per-model state (stack channels...)

    @property
    def active(self):
        return self.state in ACTIVE

    @property
    def running(self):
        return self.state == RUNNING

    @property
    def key(self):
        return (self.loom.name, self.proc.pid, self.tid)


class Cpu:
    def __init__(self, loom, index, phyid, virtual=False):
        self.loom, self.index, self.phyid, self.virtual = loom, index, phyid, virtual
        self.threads = []
        self.row = None
        self.name = None

    def nrunning(self):
        return sum(1 for t in self.threads if t.state == RUNNING)

    def running_thread(self):
        r = [t for t in self.threads if t.state == RUNNING]
        return r[0] if len(r) == 1 else None

    def active_thread(self):
        r = [t for t in self.threads if t.state in ACTIVE]
        return r[0] if len(r) == 1 else None


class Proc:
    def __init__(self, loom, d):
        self.loom = loom
        self.pid = d["pid"]
        self.appid = d.get("appid", 1)
        self.rank = d.get("rank")
        self.nranks = d.get("nranks")
        self.threads = {}


class Loom:
    def __init__(self, d):
        self.name = d["name"]
        self.cpus = {}
        for (i, p) in d["cpus"]:
            self.cpus[i] = Cpu(self, i, p)
        self.vcpu = Cpu(self, -1, -1, True)
        self.procs = {}
        self.offset = d.get("offset", 0)

    def get_cpu(self, index):
        if index == -1:
            return self.vcpu
        return self.cpus.get(index)

    def find_thread(self, tid):
        for p in self.procs.values():
            if tid in p.threads:
                return p.threads[tid]
        return None


class System:
    def __init__(self, desc):
        self.looms = {}
        for ld in desc["looms"]:
            l = Loom(ld)
            self.looms[l.name] = l
            for pd in ld["procs"]:
                p = Proc(l, pd)
                l.procs[p.pid] = p
                for tid in pd["threads"]:
                    p.threads[tid] = Thread(l, p, tid)
        self._order()

    def _order(self):
        looms = list(self.looms.values())

        def rank_enabled(l):
            return any(p.rank is not None for p in l.procs.values())
        by_rank = all(rank_enabled(l) for l in looms)
        if by_rank:
            looms.sort(key=lambda l: min(p.rank for p in l.procs.values() if p.rank is not None))
        else:
            looms.sort(key=lambda l: l.name.encode("latin-1"))
        self.loom_order = looms
        self.thread_rows = []
        self.cpu_rows = []
        for li, l in enumerate(looms):
            procs = list(l.procs.values())
            if rank_enabled(l):
                procs.sort(key=lambda p: p.rank)
            else:
                procs.sort(key=lambda p: p.pid)
            for p in procs:
                for tid in sorted(p.threads):
                    t = p.threads[tid]
                    t.row = len(self.thread_rows) + 1
                    t.rowname = "TH %d.%d" % (p.appid, tid)
                    self.thread_rows.append(t)
            for c in sorted(l.cpus.values(), key=lambda c: c.phyid):
                c.row = len(self.cpu_rows) + 1
                c.name = " CPU %d.%d" % (li, c.phyid)
                self.cpu_rows.append(c)
            l.vcpu.row = len(self.cpu_rows) + 1
            l.vcpu.name = "vCPU %d.*" % li
            self.cpu_rows.append(l.vcpu)

    def thread(self, key):
        return self.looms[key[0]].procs[key[1]].threads[key[2]]

    # -- ovni model: thread life cycle and affinity ------------------------
    def _check_oversub(self, cpu):
        if cpu is not None and not cpu.virtual and cpu.nrunning() > 1:
            raise Reject("physical %s oversubscribed" % cpu.name)

    def ovni_event(self, th, mcv, payload):
        if th.out_of_cpu:
            raise Reject("thread out of CPU")
        c, v = mcv[1], mcv[2]
        if c == "H":
            self._thread_event(th, v, payload)
        elif c == "A":
            self._affinity_event(th, v, payload)
        else:
            raise KeyError(mcv)

    def _thread_event(self, th, v, payload):
        s = th.state
        if v == "x":
            if s != UNKNOWN:
                # (dead -> execute is left open by the property; callers
                # never generate it)
                raise Reject("execute in state %s" % s)
            if len(payload) < 4:
                raise Reject("execute without payload")
            idx = struct.unpack_from("<i", payload)[0]
            cpu = th.loom.get_cpu(idx)
            if cpu is None:
                raise Reject("no CPU with index %d" % idx)
            th.cpu = cpu
            th.state = RUNNING
            cpu.threads.append(th)
            self._check_oversub(cpu)
        elif v == "e":
            if s not in (RUNNING, COOLING):
                raise Reject("end in state %s" % s)
            th.state = DEAD
            th.cpu.threads.remove(th)
            th.cpu = None
        elif v == "p":
            if s not in (RUNNING, COOLING):
                raise Reject("pause in state %s" % s)
            th.state = PAUSED
        elif v == "r":
            if s not in (PAUSED, WARMING):
                raise Reject("resume in state %s" % s)
            th.state = RUNNING
            self._check_oversub(th.cpu)
        elif v == "c":
            if s != RUNNING:
                raise Reject("cool in state %s" % s)
            th.state = COOLING
        elif v == "w":
            if s != PAUSED:
                raise Reject("warm in state %s" % s)
            th.state = WARMING
        elif v == "C":
            pass
        else:
            raise Reject("unknown thread event")

    def _affinity_event(self, th, v, payload):
        if v == "s":
            if th.cpu is None:
                raise Reject("affinity set without CPU")
            if not th.active:
                raise Reject("affinity set while not active")
            if len(payload) != 4:
                raise Reject("bad payload size")
            cpu = th.loom.get_cpu(struct.unpack_from("<i", payload)[0])
            if cpu is None:
                raise Reject("no such CPU")
            self._migrate(th, cpu)
        elif v == "r":
            if len(payload) != 8:
                raise Reject("bad payload size")
            idx, tid = struct.unpack_from("<ii", payload)
            rt = th.proc.threads.get(tid) or th.loom.find_thread(tid)
            if rt is None:
                raise Reject("remote thread not found")
            if rt.state in (DEAD, UNKNOWN):
                raise Reject("remote thread %s" % rt.state)
            cpu = th.loom.get_cpu(idx)
            if cpu is None:
                raise Reject("no such CPU")
            self._migrate(rt, cpu)
        else:
            raise Reject("unknown affinity event")

    def _migrate(self, th, cpu):
        if th.cpu is cpu:
            return
        th.cpu.threads.remove(th)
        th.cpu = cpu
        cpu.threads.append(th)
        self._check_oversub(cpu)

    def all_dead(self):
        return all(t.state == DEAD for t in self.thread_rows)

    # -- expected views -------------------------------------------------------
    def thread_view(self):
        """{(row, type): label-or-number} of the base thread rows."""
        v = {}
        for t in self.thread_rows:
            if t.state != UNKNOWN:
                v[(t.row, 4)] = t.state
            if t.active:
                v[(t.row, 2)] = t.tid
            if t.cpu is not None:
                v[(t.row, 6)] = t.cpu.name
        return v

    def cpu_view(self):
        v = {}
        for c in self.cpu_rows:
            n = c.nrunning()
            if n:
                v[(c.row, 3)] = n
            r = c.running_thread()
            if r is not None:
                v[(c.row, 2)] = r.tid
                v[(c.row, 1)] = r.proc.pid
        return v
