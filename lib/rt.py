"""Driving the real libovni through drivers/rtdrv.c and reading back the
client-boundary emit log."""

import os
import shutil
import struct

from core import VERIF, run_retry, HarnessError
import obs


def build_rtdrv(chk, build, name="rtdrv"):
    out = os.path.join(chk.scratch, "%s-%s" % (name, build.flavour))
    if os.path.exists(out):
        return out
    src = os.path.join(VERIF, "drivers", name + ".c")
    chk.cc(out, [src], build,
           extra=["-L", build.libdir, "-lovni", "-lpthread", "-Wl,-rpath," + build.libdir])
    return out


def jumbo_fill(size, seed, uid):
    base = bytes(((seed + j) % 251) for j in range(251))
    data = bytearray((base * (size // 251 + 2))[:size])
    n = min(8, size)
    data[:n] = struct.pack("<Q", uid)[:n]
    return bytes(data)


class LogRec:
    __slots__ = ("kind", "mcv", "clock", "payload", "jumbo", "returned", "t0", "t1", "text", "tid")

    def __init__(self, kind):
        self.kind = kind
        self.mcv = self.clock = self.payload = self.text = self.tid = None
        self.jumbo = False
        self.returned = False
        self.t0 = self.t1 = None

    def __repr__(self):
        return "LogRec(%s,%s,%s,%s,ret=%s)" % (self.kind, self.mcv, self.clock,
                                                 (self.payload or b"")[:16].hex(), self.returned)


def parse_log(path):
    """Returns the list of LogRec in call order.  kind in
    init, ev, jumbo, mark, flush, free, other."""
    with open(path, "rb") as f:
        d = f.read()
    recs = []
    off = 0
    n = len(d)
    try:
        while off < n:
            c = chr(d[off])
            if c == "I":
                r = LogRec("init"); r.tid = struct.unpack_from("<I", d, off + 1)[0]
                recs.append(r); off += 5
            elif c in "ieFxo":
                recs[-1].returned = True; off += 1
            elif c == "B":
                cnt = struct.unpack_from("<I", d, off + 1)[0]
                off += 5
                if off < n and chr(d[off]) == "b" and off + 1 + 8 * cnt <= n:
                    clocks = struct.unpack_from("<%dQ" % cnt, d, off + 1)
                    off += 1 + 8 * cnt
                    for i in range(cnt):
                        r = LogRec("ev"); r.mcv = "OB."; r.clock = clocks[i]
                        r.payload = struct.pack("<QQ", i, (~i) & 0xFFFFFFFFFFFFFFFF)
                        r.returned = True
                        recs.append(r)
                else:
                    break       # killed inside the bulk: nothing is known about these events
            elif c == "E":
                r = LogRec("ev")
                r.mcv = d[off + 1:off + 4].decode("latin-1")
                r.clock, ln = struct.unpack_from("<QI", d, off + 4)
                r.payload = d[off + 16:off + 16 + ln]
                if len(r.payload) != ln:
                    break
                recs.append(r); off += 16 + ln
            elif c == "J":
                r = LogRec("jumbo")
                r.mcv = d[off + 1:off + 4].decode("latin-1")
                r.clock, size, seed, uid = struct.unpack_from("<QIIQ", d, off + 4)
                r.payload = jumbo_fill(size, seed, uid)
                r.jumbo = True
                recs.append(r); off += 28
            elif c == "f":
                recs.append(LogRec("flush")); off += 1
            elif c == "X":
                recs.append(LogRec("free")); off += 1
            elif c == "M":
                r = LogRec("mark")
                r.mcv = d[off + 1:off + 4].decode("latin-1")
                r.t0 = struct.unpack_from("<Q", d, off + 4)[0]
                r.payload = d[off + 12:off + 24]
                recs.append(r); off += 24
            elif c == "m":
                recs[-1].t1 = struct.unpack_from("<Q", d, off + 1)[0]
                recs[-1].returned = True; off += 9
            elif c == "O":
                ln = d[off + 1]
                r = LogRec("other"); r.text = d[off + 2:off + 2 + ln].decode("latin-1")
                recs.append(r); off += 2 + ln
            else:
                raise HarnessError("corrupt emit log %s at %d" % (path, off))
    except (struct.error, IndexError):
        pass  # torn last record after a kill
    return recs


def run_script(drv, script_text, workdir, env=None, timeout=60, inline=False, wrapper=None):
    """Runs rtdrv on a script.  Trace goes to <workdir>/trace (OVNI_TRACEDIR),
    logs to <workdir>/log.  Returns core.Result."""
    os.makedirs(os.path.join(workdir, "log"), exist_ok=True)
    sp = os.path.join(workdir, "script.txt")
    with open(sp, "w") as f:
        f.write(script_text)
    e = {"OVNI_TRACEDIR": os.path.join(workdir, "trace")}
    if inline:
        e["RTDRV_INLINE"] = "1"
    if env:
        e.update(env)
    argv = [drv, sp, os.path.join(workdir, "log")]
    if wrapper:
        argv = list(wrapper) + argv
    return run_retry(argv, env=e, cwd=workdir, timeout=timeout)


def expected_events(recs, upto_flush=False):
    """Events the thread handed over (all calls that returned, plus possibly
    the one in flight).  Returns (sure, maybe) lists of comparable items:
    ('ev', clock, mcv, payload, jumbo) or ('mark', mcv, payload, t0, t1)."""
    sure, maybe = [], []
    for r in recs:
        if r.kind in ("ev", "jumbo"):
            item = ("ev", r.clock, r.mcv, bytes(r.payload), r.jumbo)
        elif r.kind == "mark":
            item = ("mark", r.mcv, bytes(r.payload), r.t0, r.t1)
        else:
            continue
        (sure if r.returned else maybe).append(item)
    return sure, maybe


def is_flush_marker(ev):
    return (not ev.jumbo) and ev.mcv in ("OF[", "OF]") and len(ev.payload) == 0


def compare_stream(evs, recs):
    """C01 oracle: the decoded stream minus library flush markers must equal
    the emit log exactly and in order.  Returns None or a description."""
    sure, maybe = expected_events(recs)
    got = [e for e in evs if not is_flush_marker(e)]
    if len(got) != len(sure):
        return "stream has %d non-marker events, emit log has %d" % (len(got), len(sure))
    for i, (g, x) in enumerate(zip(got, sure)):
        if x[0] == "ev":
            if (g.clock, g.mcv, g.payload, g.jumbo) != (x[1], x[2], x[3], x[4]):
                return "event %d differs: stream %r vs emitted clock=%d mcv=%s payload=%s%s jumbo=%s" % (
                    i, g, x[1], x[2], x[3][:24].hex(), "..." if len(x[3]) > 24 else "", x[4])
        else:
            if g.jumbo or g.mcv != x[1] or g.payload != x[2]:
                return "mark event %d differs: stream %r vs %s %s" % (i, g, x[1], x[2].hex())
            if not (x[3] <= g.clock <= x[4]):
                return "mark event %d clock %d outside call window [%d,%d]" % (i, g.clock, x[3], x[4])
    return None


def align_script(drv, script_text, multiple, scratch, before="ev OHe", inline=False):
    """Pads the (single-thread) script with user events so that its stream.obs is an
    exact multiple of `multiple` bytes: the script is run once without
    OVNI_TMPDIR to measure the stream, then `ev OB.` events of the missing
    size are inserted before the first line starting with `before` (or before
    the last flush).  Returns (script, size) or None if it cannot be measured."""
    import tempfile
    wd = tempfile.mkdtemp(prefix="align-", dir=scratch)
    try:
        r = run_script(drv, script_text, wd, timeout=120, inline=inline)
        if r.rc != 0 or "RTDRV-DONE" not in r.out:
            return None
        sds = obs.find_streams(os.path.join(wd, "trace"))
        if len(sds) != 1:
            return None
        size = os.path.getsize(os.path.join(sds[0], "stream.obs"))
    finally:
        shutil.rmtree(wd, ignore_errors=True)
    d = (-size) % multiple
    if d == 0:
        return script_text, size
    if d < 12 or d == 13:      # 13 would need a one-byte payload, which the API does not take
        d += multiple
    pad = []
    while d > 28:
        pad.append("ev OB. now -"); d -= 12
    if d < 12:      # cannot happen (d was >= 12 and we stop above 28 - 12)
        return None
    pad.append("ev OB. now %s" % ("ab" * (d - 12) if d > 12 else "-"))
    lines = script_text.rstrip("\n").split("\n")
    idx = next((k for k, l in enumerate(lines) if l.startswith(before)), None)
    if idx is None:
        idx = max(k for k, l in enumerate(lines) if l.strip() == "flush")
    lines[idx:idx] = pad
    return "\n".join(lines) + "\n", size + sum(12 + (len(p.split()[-1]) // 2 if p.split()[-1] != "-" else 0) for p in pad)


def churn_check(tracedir, nev):
    """Streams written by drivers/churndrv.c: every stream must hold exactly the
    nev events (tid, 0..nev-1) of its own thread.  Returns (streams checked,
    None or (key, description))."""
    n = 0
    for sd in obs.find_streams(tracedir):
        tid = int(os.path.basename(sd).split(".")[1])
        try:
            evs = obs.decode_file(os.path.join(sd, "stream.obs"))
        except (obs.DecodeError, OSError) as ex:
            return n, ("churn:not-tiled", "stream of thread %d: %s" % (tid, ex))
        mine = [e for e in evs if not is_flush_marker(e)]
        n += 1
        want = [struct.pack("<II", tid, k) for k in range(nev)]
        got = [bytes(e.payload) for e in mine]
        if got != want:
            k_ = next((k for k in range(min(len(got), len(want))) if got[k] != want[k]), min(len(got), len(want)))
            who = struct.unpack("<II", got[k_])[0] if k_ < len(got) and len(got[k_]) == 8 else None
            return n, ("churn:foreign-or-missing-events", "stream of thread %d holds %d events, its thread emitted %d; first "
                       "difference at event %d (emitted by thread %s)" % (tid, len(got), nev, k_, who))
    return n, None
