"""Writing synthetic traces (system description + history) to disk."""

import os

import obs


def simple_system(nthreads=1, ncpus=1, nlooms=1, nprocs=1, tid0=10, loomfmt="L%d"):
    looms = []
    tid = tid0
    pid = 1
    for l in range(nlooms):
        procs = []
        for p in range(nprocs):
            ths = []
            for t in range(nthreads):
                ths.append(tid); tid += 1
            procs.append({"pid": pid, "appid": 1 + p + l * nprocs, "threads": ths}); pid += 1
        looms.append({"name": loomfmt % l, "cpus": [(i, i) for i in range(ncpus)], "procs": procs})
    return {"looms": looms}


def all_keys(desc):
    ks = []
    for l in desc["looms"]:
        for p in l["procs"]:
            for t in p["threads"]:
                ks.append((l["name"], p["pid"], t))
    return ks


def write_trace(tracedir, desc, history, require=None, extra_meta=None, cpus_on="first",
                per_thread_meta=None, make_cfg=True, finished=True, cpu_rng=None, rank_on="all", require_on="all"):
    """history: list of (clock, key, mcv, payload[, jumbo]).  Each thread of
    `desc` gets a stream (possibly with zero events).  loom_cpus are carried
    by the first thread of the loom (cpus_on='first') or by every thread
    ('all'); 'shuffled': by the first thread, in an order drawn from cpu_rng;
    'split': spread over the threads of the loom in pieces drawn from cpu_rng,
    each piece in its own order (the union is the whole list)."""
    import random as _random
    cpu_rng = cpu_rng or _random.Random(0)
    # rank_on='one': the rank attributes of a process are carried by a single thread drawn
    # from cpu_rng (the one that called ovni_proc_set_rank), not by all of them
    carrier = {}
    if rank_on == "one":
        for l in desc["looms"]:
            for p in l["procs"]:
                carrier[(l["name"], p["pid"])] = cpu_rng.choice(p["threads"])
    split = {}
    if cpus_on == "split":
        for l in desc["looms"]:
            keys = [(l["name"], p["pid"], t) for p in l["procs"] for t in p["threads"]]
            cl = list(l["cpus"])
            cpu_rng.shuffle(cl)
            for k in keys:
                split[k] = []
            for c in cl:
                split[cpu_rng.choice(keys)].append(c)
    # require_on: the model requirements are carried by every thread ('all') or only by the first / the last
    # thread of the trace (a model is enabled as soon as one stream requires it)
    allk = all_keys(desc)
    req_carrier = {"first": allk[0], "last": allk[-1]}.get(require_on)
    per = {}
    for h in history:
        clock, key, mcv = h[0], h[1], h[2]
        payload = h[3] if len(h) > 3 else b""
        jumbo = h[4] if len(h) > 4 else False
        per.setdefault(key, []).append((clock, mcv, payload, jumbo))
    for l in desc["looms"]:
        first = True
        for p in l["procs"]:
            for t in p["threads"]:
                key = (l["name"], p["pid"], t)
                if cpus_on == "split":
                    cpus = split[key] or None
                elif cpus_on == "shuffled":
                    cpus = list(l["cpus"]) if first else None
                    if cpus:
                        cpu_rng.shuffle(cpus)
                else:
                    cpus = l["cpus"] if (first or cpus_on == "all") else None
                first = False
                has_rank = rank_on == "all" or carrier.get((l["name"], p["pid"])) == t
                meta = obs.thread_meta(t, p["pid"], l["name"], app_id=p.get("appid", 1), cpus=cpus,
                                       require=require if (req_carrier is None or req_carrier == key) else None,
                                       rank=p.get("rank") if has_rank else None,
                                       nranks=p.get("nranks") if has_rank else None,
                                       extra=extra_meta, finished=finished)
                if per_thread_meta and key in per_thread_meta:
                    for k, v in per_thread_meta[key].items():
                        if k == "ovni":
                            meta["ovni"].update(v)
                        else:
                            meta[k] = v
                obs.write_stream(tracedir, l["name"], p["pid"], t, meta, per.get(key, []))
    if make_cfg:
        # the emulator skips copying its Paraver configs if cfg/ exists
        os.makedirs(os.path.join(tracedir, "cfg"), exist_ok=True)
    return tracedir
