"""Run a synthetic history through the real emulator and compare the
reconstructed Paraver step functions with the reference model after every
event (or after every distinct timestamp when clocks tie)."""

import os
import shutil

import emu
import pv
import tracegen


def run_history(build, wd, desc, history, require=None, args=(), extra_meta=None,
                per_thread_meta=None, keep=False, timeout=30, names=("thread", "cpu")):
    shutil.rmtree(wd, ignore_errors=True)
    tracegen.write_trace(wd, desc, history, require=require, extra_meta=extra_meta,
                         per_thread_meta=per_thread_meta)
    res = emu.emu(build, wd, args, timeout=timeout)
    out = None
    if emu.accepted(res):
        out = pv.Out(wd, names)
    return res, out


def observed_states(prv, pcf, times, types, labelled):
    """Per time T: {(row,type): value-or-label} restricted to `types`."""
    raw = prv.states_at(times)
    res = []
    for st in raw:
        d = {}
        for (row, ty), v in st.items():
            if types is not None and ty not in types:
                continue
            if ty in labelled:
                lab = pcf.label(ty, v)
                d[(row, ty)] = lab if lab is not None else "<unlabelled %d>" % v
            else:
                d[(row, ty)] = v
        res.append(d)
    return res


def diff_states(exp, got):
    """First difference between two {(row,type): v} dicts, or None."""
    for k in sorted(set(exp) | set(got)):
        if exp.get(k) != got.get(k):
            return k, exp.get(k), got.get(k)
    return None


def compare_file(prv, pcf, times, expected, types, labelled):
    """expected: list (one per time) of dicts.  Returns None or a message."""
    got = observed_states(prv, pcf, times, types, labelled)
    for i, (e, g) in enumerate(zip(expected, got)):
        e = {k: v for k, v in e.items() if types is None or k[1] in types}
        d = diff_states(e, g)
        if d:
            (row, ty), ev, gv = d
            return {"event_index": i, "time": times[i], "row": row, "type": ty,
                    "expected": ev, "observed": gv}
    return None


def event_times(history):
    """Paraver times of each event of a history with unique clocks, sorted
    by clock: clock - first clock."""
    clocks = sorted(h[0] for h in history)
    return [c - clocks[0] for c in clocks]
