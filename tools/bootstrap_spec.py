#!/usr/bin/env python3
"""One-off generator of spec/events.json (the FROZEN event table used by the
oracles of C06/C08/C12/C18/C19).  It characterises a build of the unchanged
tree: for every event listed by `ovnievents` it records partner, channel
(Paraver type), action and the *label* the value carries in the .pcf.  The
result was then reviewed by hand against the event descriptions
(doc/user/emulation/events.md) and the per-model documentation, and is
committed; the checks never regenerate it.

usage: tools/bootstrap_spec.py <builddir-with-src/emu tools> > spec/events.json
"""
import html
import json
import os
import re
import shutil
import subprocess
import sys
import tempfile

HERE = os.path.dirname(os.path.dirname(os.path.abspath(__file__)))
sys.path.insert(0, os.path.join(HERE, "lib"))
import obs   # noqa
import pv    # noqa

# Hand-written from src/emu/*/setup.c documentation tables and doc/user/emulation:
MODELS = {
    "O": dict(name="ovni", need="any", channels={"flush": dict(type=7, kind="single", dup=False, th="any", cpu="running")}),
    "V": dict(name="nosv", need="active", channels={
        "subsystem": dict(type=13, kind="stack", dup=True, th="active", cpu="running"),
        "idle": dict(type=16, kind="single", dup=False, th="running", cpu="running"),
        "taskid": dict(type=10, kind="single", dup=False, th="running", cpu="running"),
        "type": dict(type=11, kind="single", dup=True, th="running", cpu="running"),
        "appid": dict(type=12, kind="single", dup=True, th="running", cpu="running"),
        "rank": dict(type=14, kind="single", dup=True, th="running", cpu="running"),
        "bodyid": dict(type=15, kind="single", dup=True, th="running", cpu="running")}),
    "6": dict(name="nanos6", need="active", channels={
        "subsystem": dict(type=37, kind="stack", dup=False, th="active", cpu="running"),
        "thread": dict(type=39, kind="stack", dup=False, th="any", cpu="running"),
        "idle": dict(type=40, kind="single", dup=False, th="running", cpu="running"),
        "taskid": dict(type=35, kind="single", dup=False, th="running", cpu="running"),
        "type": dict(type=36, kind="single", dup=True, th="running", cpu="running"),
        "rank": dict(type=38, kind="single", dup=True, th="running", cpu="running")}),
    "D": dict(name="nodes", need="running", channels={"subsystem": dict(type=30, kind="stack", dup=False, th="active", cpu="running")}),
    "M": dict(name="mpi", need="running", channels={"function": dict(type=25, kind="stack", dup=False, th="running", cpu="running")}),
    "T": dict(name="tampi", need="running", channels={"subsystem": dict(type=20, kind="stack", dup=False, th="active", cpu="running")}),
    "P": dict(name="openmp", need="running", channels={"subsystem": dict(type=50, kind="stack", dup=True, th="active", cpu="running")}),
    "K": dict(name="kernel", need="any", channels={"cs": dict(type=45, kind="stack", dup=False, th="any", cpu="running")}),
}
SPECIAL = {"VTc", "VTC", "VTx", "VTe", "VTp", "VTr", "VYc", "6Yc", "6Tc", "6Tx", "6Te", "6Tp", "6Tr",
           "OAr", "OAs", "OB.", "OHC", "OHc", "OHe", "OHp", "OHr", "OHw", "OHx", "OCn", "OU[", "OU]",
           "OM[", "OM]", "OM="}
HAND_PAIRS = {"VSh": "VSf", "KCO": "KCI"}
VERBS = [("enters ", "leaves "), ("begins ", "ceases "), ("starts ", "stops  "), ("starts ", "stops ")]


def listing(bdir):
    t = subprocess.run([os.path.join(bdir, "src/emu/ovnievents")], capture_output=True, text=True).stdout
    evs = []
    model = None
    ver = {}
    for m in re.finditer(r"identifier \*\*`(.)`\*\* at version `([^`]*)`|<pre>(.*?)</pre></a></dt>\s*<dd>(.*?)</dd>", t, re.S):
        if m.group(1):
            model = m.group(1); ver[model] = m.group(2); continue
        sig = html.unescape(m.group(3)); desc = html.unescape(m.group(4))
        mcv = sig[:3]
        jumbo = len(sig) > 3 and sig[3] == "+"
        args = []
        am = re.search(r"\((.*)\)", sig)
        if am:
            for a in am.group(1).split(","):
                ty, nm = a.split()
                args.append([ty, nm])
        evs.append(dict(mcv=mcv, model=model, jumbo=jumbo, args=args, desc=desc, sig=sig))
    return evs, ver


def run(bdir, mchar, events):
    d = tempfile.mkdtemp(prefix="bs-", dir="/dev/shm")
    try:
        req = {MODELS[mchar]["name"]: VERS[mchar]} if mchar != "O" else None
        hist = [(100, "OHx", obs.i32(0, 10, 0))] + [(110 + 10 * i, e, b"") for i, e in enumerate(events)] + \
               [(110 + 10 * len(events), "OHe", b"")]
        obs.write_stream(d, "L", 1, 10, obs.thread_meta(10, 1, "L", cpus=[(0, 0)], require=req), hist)
        r = subprocess.run([os.path.join(bdir, "src/emu/ovniemu"), d], capture_output=True, text=True,
                           env={"OVNI_CONFIG_DIR": "/repo/cfg"})
        if r.returncode != 0:
            return None
        o = pv.Out(d, ("thread",))
        times = [0] + [10 + 10 * i for i in range(len(events))]
        types = {c["type"] for c in MODELS[mchar]["channels"].values()}
        res = []
        for st in o.prv["thread"].states_at(times):
            res.append({ty: o.pcf["thread"].label(ty, v) for (row, ty), v in st.items() if ty in types})
        base = res[0]
        # report only what differs from the baseline right after OHx
        return [{k: v for k, v in r.items() if base.get(k) != v} for r in res[1:]]
    finally:
        shutil.rmtree(d, ignore_errors=True)


def main():
    global VERS
    bdir = sys.argv[1]
    evs, VERS = listing(bdir)
    by = {e["mcv"]: e for e in evs}
    spec = {"_doc": "FROZEN table; generated once by tools/bootstrap_spec.py from the unchanged tree, reviewed by hand.",
            "models": {}, "events": {}}
    for mc, m in MODELS.items():
        spec["models"][mc] = dict(name=m["name"], version=VERS[mc], need=m["need"], channels=m["channels"])
    # partners
    partner = dict(HAND_PAIRS)
    for e in evs:
        for a, b in VERBS:
            if e["desc"].startswith(a):
                rest = e["desc"][len(a):]
                for f in evs:
                    if f["model"] == e["model"] and f["mcv"][1] == e["mcv"][1] and f["desc"].startswith(b) and f["desc"][len(b):] == rest and f is not e:
                        partner.setdefault(e["mcv"], f["mcv"])
    leaves = {v: k for k, v in partner.items()}
    for e in evs:
        mcv = e["mcv"]
        ent = dict(model=e["model"], sig=e["sig"], desc=e["desc"], jumbo=e["jumbo"], args=e["args"])
        if mcv in SPECIAL or (mcv[0] == "O" and mcv[1] in "FBU"):
            ent["op"] = "special"
        elif mcv in partner:
            obsv = run(bdir, e["model"], [mcv, partner[mcv]])
            if obsv is None:
                ent["op"] = "UNRESOLVED-rejected"
            elif not obsv[0]:
                ent["op"] = "ign"; ent["partner"] = partner[mcv]
            else:
                if len(obsv[0]) != 1:
                    sys.stderr.write("MULTI %s %s\n" % (mcv, obsv))
                (ty, lab) = sorted(obsv[0].items())[0]
                ch = [k for k, c in MODELS[e["model"]]["channels"].items() if c["type"] == ty][0]
                ent.update(op="push", ch=ch, label=lab, partner=partner[mcv])
                assert not obsv[1], (mcv, obsv)
        elif mcv in leaves:
            o = by[leaves[mcv]]
            ent.update(op="pop", partner=leaves[mcv])
        else:
            obsv = run(bdir, e["model"], [mcv])
            if obsv is None and mcv in ("VPp", "6Pp"):
                # threads start as Progressing (documented default), so a bare
                # *Pp is a duplicate; characterise it after *Pr instead
                o2 = run(bdir, e["model"], [mcv[:2] + "r", mcv])
                assert o2 is not None and o2[1] == {}, o2   # back to the baseline value
                base_lab = "Progressing"
                ent.update(op="set", ch="idle", label=base_lab, initial=True)
            elif obsv is None:
                ent["op"] = "UNRESOLVED-rejected"
            elif not obsv[0]:
                ent["op"] = "ign"
            else:
                (ty, lab), = obsv[0].items()
                ch = [k for k, c in MODELS[e["model"]]["channels"].items() if c["type"] == ty][0]
                ent.update(op="set", ch=ch, label=lab)
        spec["events"][mcv] = ent
    for mcv, ent in spec["events"].items():
        if ent.get("op") == "pop":
            p = spec["events"][ent["partner"]]
            if p.get("op") == "push":
                ent.update(ch=p["ch"], label=p["label"])
            else:
                ent["op"] = p["op"]
    json.dump(spec, sys.stdout, indent=1, sort_keys=True)


if __name__ == "__main__":
    main()
