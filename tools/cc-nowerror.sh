#!/bin/sh
# compiler launcher for the scratch builds: the project's -Werror is switched
# off (last option wins) so that a warning that only shows under the sanitizer
# flavours' optimisation level cannot make a check fail to build
exec "$@" -Wno-error
