#!/usr/bin/env python3
"""Confirms a seeded change independently and files it under /verif/seeded/.

usage: tools/confirm_seeded.py <Cxx> <dir-with-patch.diff-and-run_demo.sh> [--name NAME]

In a fresh scratch worktree of /repo (removed afterwards):
  1. build the unchanged tree, run the demonstration  -> must PASS
  2. apply patch.diff, rebuild with the project's flags, run the 88 tests -> must pass
  3. run the demonstration                               -> must FAIL
Then copies patch.diff, the demonstration files and a meta.json to
/verif/seeded/<name>/.  The checks are run separately (tools/run_seeded.py)."""
import json
import os
import shutil
import subprocess
import sys
import time

VERIF = os.path.dirname(os.path.dirname(os.path.abspath(__file__)))


def sh(cmd, cwd=None, timeout=1800, env=None):
    p = subprocess.run(cmd, cwd=cwd, shell=isinstance(cmd, str), stdout=subprocess.PIPE, stderr=subprocess.STDOUT,
                       timeout=timeout, env=env)
    return p.returncode, p.stdout.decode("utf-8", "replace")


def main():
    prop, src = sys.argv[1], os.path.abspath(sys.argv[2])
    name = prop
    if "--name" in sys.argv:
        name = sys.argv[sys.argv.index("--name") + 1]
    wt = "/tmp/confirm-%s-%d" % (name, os.getpid())
    res = {"property": prop, "name": name, "confirmed_at": time.strftime("%Y-%m-%d %H:%M:%S")}
    rc, out = sh(["git", "-C", "/repo", "worktree", "add", "-q", "--detach", wt, "HEAD"])
    if rc != 0:
        print(out); sys.exit(2)
    try:
        b = os.path.join(wt, "_b")
        cfg = ("cmake -G Ninja -S %s -B %s -DCMAKE_BUILD_TYPE=RelWithDebInfo -DCMAKE_C_FLAGS=-Wno-error >/dev/null 2>&1 "
               "&& cmake --build %s 2>&1 | tail -3" % (wt, b, b))
        rc, out = sh(cfg)
        res["clean_build_ok"] = rc == 0
        demo = os.path.join(src, "run_demo.sh")
        # the demonstration is run from a private copy so that it cannot depend on the agent's worktree
        dcopy = os.path.join(wt, "SEEDED")
        shutil.copytree(src, dcopy)
        env = dict(os.environ, OVNI_CONFIG_DIR=os.path.join(wt, "cfg"))
        rc, out = sh(["sh", os.path.join(dcopy, "run_demo.sh"), b], cwd=dcopy, timeout=900, env=env)
        res["demo_on_clean"] = {"rc": rc, "tail": out[-600:]}
        rc, out = sh(["git", "-C", wt, "apply", os.path.join(src, "patch.diff")])
        res["patch_applies"] = rc == 0
        if rc != 0:
            res["apply_error"] = out[-400:]
        else:
            rc, out = sh("cmake --build %s 2>&1 | tail -15" % b)
            res["patched_build_ok"] = rc == 0 and "FAILED" not in out and "error:" not in out
            res["patched_build_tail"] = out[-500:]
            rc, out = sh("ctest --test-dir %s -j8 --timeout 900 2>&1" % b)
            res["tests_with_patch"] = [l for l in out.split("\n") if "tests passed" in l or "Failed" in l][:5]
            res["tests_pass"] = "100% tests passed, 0 tests failed out of 88" in out
            rc, out = sh(["sh", os.path.join(dcopy, "run_demo.sh"), b], cwd=dcopy, timeout=900, env=env)
            res["demo_on_patched"] = {"rc": rc, "tail": out[-600:]}
        ok = (res.get("clean_build_ok") and res["demo_on_clean"]["rc"] == 0 and res.get("patch_applies")
              and res.get("patched_build_ok") and res.get("tests_pass") and res.get("demo_on_patched", {}).get("rc", 0) != 0)
        res["confirmed"] = bool(ok)
    finally:
        sh(["git", "-C", "/repo", "worktree", "remove", "--force", wt])
        shutil.rmtree(wt, ignore_errors=True)
    print(json.dumps(res, indent=1))
    if res["confirmed"]:
        dst = os.path.join(VERIF, "seeded", name)
        shutil.rmtree(dst, ignore_errors=True)
        os.makedirs(dst)
        for f in os.listdir(src):
            p = os.path.join(src, f)
            if os.path.isfile(p) and os.path.getsize(p) < 200000:
                shutil.copy(p, dst)
        meta = {"property": prop, "breaks": prop, "confirmation": res,
                "needs_to_manifest": "see README.md (written by the author of the change)",
                "what_was_run": ["clean build + demonstration (pass)", "patch + build with project flags",
                                 "ctest 88/88 with the patch", "demonstration (fail)"]}
        with open(os.path.join(dst, "meta.json"), "w") as f:
            json.dump(meta, f, indent=1)
    sys.exit(0 if res["confirmed"] else 1)


if __name__ == "__main__":
    main()
