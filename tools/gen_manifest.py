#!/usr/bin/env python3
"""Regenerates /verif/MANIFEST.json from the table below (kept here so that
the manifest stays valid and consistent while checks are being added)."""
import json
import os

HERE = os.path.dirname(os.path.dirname(os.path.abspath(__file__)))

CHECKS = {
 "C01": dict(
  cat="exploration", ref="DESIGN.md section 3, C01",
  technique="runtime monitoring: client-boundary emit log vs independent stream decoder, on ASan+UBSan libovni",
  text="Generated op scripts (boundary sweep over every distance 1..64 of the 2 MiB buffer limit, op soups, dense "
       "automatic flushes, multi-thread, genuine partial writes, writes failing with EINTR, programs without a standard input, several processes writing into one trace directory, streams padded to an exact multiple of a block size) are executed against the real libovni built with "
       "ASan+UBSan; every stream.obs is decoded by an independent parser and must equal, event for event and byte for "
       "byte, the log the driver wrote before each API call, flush markers aside. Held on the executions observed, "
       "not a proof over all programs.",
  note="Trusts drivers/rtdrv.c's emit log (written with write(2) before each call) and lib/obs.py's reading of the "
       "trace specification; sanitizers only see what the workload reaches."),
 "C02": dict(
  cat="exploration", ref="DESIGN.md section 3, C02",
  technique="runtime monitoring: conformant generated programs on ASan+UBSan libovni, independent trace validator, then ovniemu -l",
  text="Generated protocol-conformant programs (1-4 threads, all clocks from ovni_clock_now, near-capacity jumbo events "
       "arriving at buffer fill levels with every distance 1..64 to the limit covered, back-to-back automatic flushes, OVNI_TMPDIR on and off, a quarter of the runs under genuine partial writes, one in seven without a standard input) run against the "
       "real libovni; every stream must pass an independent validator (header, exact tiling, non-decreasing clocks, "
       "properly paired non-nested OF[ OF], complete metadata) and the real ovniemu -l must accept the trace.",
  note="Conformance as documented in doc/user/runtime/index.md; OB. events with arbitrary payload/jumbo data stand "
       "for user events. Held on the programs generated, not all programs."),
 "C04": dict(
  cat="exploration", ref="DESIGN.md section 3, C04",
  technique="runtime monitoring: bounded-exhaustive legal-prefix closure + random histories through the real ovniemu, six-transition reference machine as oracle, thread.prv step functions compared per event",
  text="Every legal prefix (per the six-transition machine of the statement) up to a fixed length over the OH* alphabet (execute naming the usual or another CPU of the loom), "
       "on one thread, on the virtual CPU and on two threads (own CPUs, shared physical CPU, shared virtual CPU), is "
       "extended by every possible next event and run through the real emulator: legal extensions completed to Dead "
       "must be accepted with thread.prv types 4/2/6 equal to the machine after every event (and rejected bare if a "
       "thread is not dead); illegal extensions must be rejected under every candidate completion. Random histories to "
       "length 40 on 1-3 threads on top. Exhaustive inside the stated bound only.",
  note="Oracle is lib/refemu.py (written from the statement and doc/user/emulation/ovni.md); OHx after OHe is outside "
       "the space as the property says; observation is exit status, final INFO line and the .prv/.pcf files."),
 "C05": dict(
  cat="exploration", ref="DESIGN.md section 3, C05",
  technique="runtime monitoring: legal-prefix closure + random thread/affinity histories through the real ovniemu, reference CPU model as oracle, cpu.prv and thread.prv step functions compared per event",
  text="Histories over OHx(cpu)/OHp/OHr/OHc/OHw/OHe/OAs(cpu)/OAr(cpu,tid) on 2-5 threads, 1-2 looms, 1-3 physical CPUs "
       "plus the virtual CPU (bounded closure on two small systems, random to length 60): the emulator must accept "
       "exactly when the reference model sees no illegal transition and never two running threads on a physical CPU "
       "(virtual CPU oversubscription must be accepted); cpu.prv types 1/2/3 and thread.prv 4/2/6 must equal the model "
       "after every event; cpu.row names must be the model's CPU order.",
  note="Oracle lib/refemu.py; remote affinity events naming the CPU the target already occupies are not generated "
       "(not a change; behaviour unspecified by the property, see DESIGN.md)."),
 "C03": dict(
  cat="exploration", ref="DESIGN.md section 3, C03",
  technique="runtime monitoring: replay-order log from unique-id marks in thread.prv and ovnidump -x, checked against merge properties; ASan+UBSan invariant harness over heap.h",
  text="Sets of 1-12 (now and then 30-120) sorted streams over 1-4 looms, several looms per host, ranks placed cyclically, clock spans from 5 ns to 10^12 ns (clock-offset tables in the trace and via -c, many equal corrected "
       "clocks within and across streams, equal first clocks, streams of up to 3000 events, empty streams for the dump "
       "tools) are replayed by the real ovniemu, ovnidump and ovnitop. Unique mark ids turn thread.prv type 100 and the "
       "dump output into ordered logs; the monitor checks permutation (no loss, no duplicate), per-stream order, "
       "non-decreasing corrected time, Paraver time = corrected - first corrected, header duration, and byte-identical "
       "outputs for two directory creation orders on tmpfs and ext4. heap.h is driven in-process under ASan+UBSan with "
       "a structural walk (links, complete shape, order) after every operation.",
  note="ovnidump applies no offsets (raw clocks checked). Tie order is left free, as in the statement."),
 "C06": dict(
  cat="exploration", ref="DESIGN.md section 3, C06",
  technique="runtime monitoring: random legal histories over all models through the real ovniemu; every Paraver row reconstructed and compared per event with reference views built from a frozen event table",
  text="Random histories that the reference model accepts - value changes on every channel of every model (stack, "
       "single, task, mark, idle, kernel) interleaved with pause/resume/cool/warm, local and remote affinity changes and "
       "2-3 threads taking turns on shared CPUs, with unique clocks and with equal clocks inside a thread - are emulated "
       "by the real ovniemu (thorough: a share on the ASan+UBSan build). Every (row,type) step function of thread.prv "
       "and cpu.prv is compared after each event with the reference view: thread row = raw value gated by the type's "
       "tracking mode; CPU row = value of the unique running thread, else nothing (or the idle default). Values are "
       "compared by .pcf label against the frozen table spec/events.json.",
  note="Only histories the model itself accepts are generated, so the verdict never depends on the accept/reject "
       "boundary. spec/events.json was characterised once on the unchanged tree and reviewed against the event "
       "descriptions."),
 "C12": dict(
  cat="exploration", ref="DESIGN.md section 3, C12",
  technique="runtime monitoring: exhaustive single-corruption enumeration of valid synthetic traces, real ovniemu must reject",
  text="Valid multi-model base traces (1-3 streams, jumbo type events, tasks, marks; first confirmed accepted) are "
       "corrupted one thing at a time and run through the real ovniemu: every header byte altered, truncation at every "
       "byte offset, every adjacent pair with different clocks swapped, each mandatory metadata key removed or altered "
       "(version, part, tid, pid, loom, finished, lib.*, app_id and loom_cpus on their only carriers, require removed "
       "from all streams, incompatible or unparsable required versions, broken JSON), each event replaced by an event of "
       "a model the trace does not require or by an unknown code, size-checked events given wrong payload sizes, jumbo "
       "flag cleared. The emulator must exit non-zero without printing 'emulation finished ok'; a signal is reported too.",
  note="Thorough enumerates every corruption of every class on 64 bases; quick takes a strided sample per class on 16. "
       "Events whose payload size no model checks are outside the statement."),
 "C19": dict(
  cat="exploration", ref="DESIGN.md section 3, C19",
  technique="runtime monitoring with sanitizers: structure-aware trace mutation through the four tools built with ASan+UBSan and an exact-size heap stream buffer (hook H1); signal / exit status / sanitizer report / hang oracle",
  text="Valid multi-model traces are mutated structurally - flags nibbles, jumbo size fields (incl. >= 2^31), truncation "
       "inside the last events, every payload shape for every payload-reading event (also as the last event of the "
       "stream), jumbo data without nil, MCV and clock extremes, page-multiple file sizes, byte noise; every JSON type at "
       "every metadata position, loom_cpus shapes, mark/require/loom garbage, malformed and deeply nested JSON; clock "
       "offset tables; valid streams with unsorted regions sorted with very small look-back rings - and every mutant is given to ovniemu, ovnidump, ovnitop and ovnisort built with ASan+UBSan, the "
       "stream loaded into an exact-size heap buffer so that a one-byte over-read is caught. Violation = signal (incl. "
       "abort), exit status other than 0/1, silent failure, sanitizer report, or a hang confirmed twice (20 s then 60 s "
       "on inputs of a few KiB). 'Never loops forever' is decided only as that bounded-time restatement.",
  note="Sanitizers miss in-bounds reads of the wrong bytes and far out-of-bounds accesses; signed-integer-overflow is "
       "not counted (the property is about crashes, hangs and out-of-bounds accesses). Quick: 16 bases, 8 mutants per "
       "mutation class; thorough: 48 bases, every mutant."),
 "C13": dict(
  cat="exploration", ref="DESIGN.md section 3, C13",
  technique="runtime monitoring: independent parser of .prv/.pcf/.row over generated accepted traces, well-formedness and self-consistency rules as oracle",
  text="Accepted traces from the all-model history generator (marks with labels, nOS-V/Nanos6 tasks and types, ranks, 1-5 "
       "looms with scrambled names, CPUs declared by one or by every thread) and -b breakdown runs are emulated by the "
       "real ovniemu; every thread/cpu/breakdown .prv, .pcf and .row is parsed independently and must satisfy: "
       "non-decreasing timestamps, rows within the declared count, header duration equal to the last input event time, "
       "every event type declared in the matching .pcf, every non-zero value of a state type labelled, .row naming "
       "exactly the declared rows in the documented order (from the reference system model).",
  note="Only accepted traces are in scope; the row order oracle is lib/refemu.py's reading of the documentation."),
 "C14": dict(
  cat="exploration", ref="DESIGN.md section 3, C14",
  technique="runtime monitoring: exhaustive small-domain and random differential run of the real version code, library and emulator against the semantic-versioning predicate",
  text="(a) the real version_parse/version_is_compatible (ASan+UBSan harness) on all 324 (want,have) pairs over majors "
       "and minors {0,1,2} and patches {0,9}, random triples up to 10^6 and unambiguously malformed strings; (b) "
       "ovni_version_check_str of the built libovni for every triple around the library's own version and the malformed "
       "strings (accept = returns, refuse = abort with a diagnostic), also from 2-16 threads at once; (c) the real ovniemu on traces that require each "
       "of the eight models at versions around the emulator's own, malformed requirements, several streams requiring one model at mixed versions (both orders), every version case again with -a, and subsets of the seven "
       "optional models spread over two threads: the set the emulator reports as enabled must be exactly the required "
       "set (all models with -a), probe events of enabled models are accepted and one of a disabled model is rejected.",
  note="Oracle: major equal and minor not greater, patch ignored. Strings that strtol tolerates by accident are "
       "recorded, not judged."),
 "C15": dict(
  cat="exploration", ref="DESIGN.md section 3, C15",
  technique="runtime monitoring, metamorphic: variants of one trace differing only in attribute distribution / element order / stream creation order must give byte-identical emulator output in the documented row order; single contradictions must fail cleanly",
  text="Random systems (1-3 looms, 1-3 processes, 1-4 threads, ranks on all/some/no looms, CPUs with random physical "
       "ids) with one fixed event history are written in 6-12 variants: app_id and rank/nranks on arbitrary non-empty "
       "subsets of a process's threads, loom_cpus split into overlapping sub-lists in arbitrary element order over the "
       "loom's threads, streams created in shuffled order. The real ovniemu must accept every variant and produce "
       "byte-identical .prv/.pcf/.row whose rows follow the documented order (reference system model). Fifteen kinds of "
       "single contradictions must end with exit status 1 and an ERROR line - not a signal, not success.",
  note="The union of the metadata is held fixed across variants by construction; only accepted-by-specification "
       "distributions are generated (every loom keeps its CPUs, every process its app id)."),
 "C16": dict(
  cat="exploration", ref="DESIGN.md section 3, C16",
  technique="runtime monitoring: differential run of the real ovnisort against a stable sort of the original event list (independent decoder), plus idempotence, check mode and emulator acceptance",
  text="Traces of 1-3 streams built from a sorted base of uniquely numbered events with many equal clocks and 1-8 OU[ OU] "
       "regions (0-20 normal and jumbo events, internally sorted or not, belonging up to 2000 events back or entirely in the "
       "future, clock gaps of several seconds, also into a previous region, at the start and before the first event of the stream) are sorted by the real ovnisort with look-back windows from just above the "
       "needed depth (the ring wraps and is rebuilt) to the default. Exit 0 is required and the decoded result must "
       "equal the stable sort by clock of the original list (permutation, bytes, order and tie stability in one "
       "comparison), same size; a second run must change nothing, ovnisort -c and ovniemu -l must accept. "
       "A quarter of the cases run under an LD_PRELOAD shim that makes pwrite() transfer 1-64 bytes at a time. Streams whose "
       "destination is more than twice the window back must fail with a message for every window size from 4 up. Thorough runs a share under "
       "ASan+UBSan with the heap stream buffer.",
  note="Nothing is asserted between n/2 and 2n events of look-back. Tie stability rests on glibc's qsort being a "
       "merge sort."),
 "C18": dict(
  cat="exploration", ref="DESIGN.md section 3, C18",
  technique="runtime monitoring: exhaustive one-event probes of every printable event code per model through the real emulator, set comparison with the ovnievents listing, independent re-implementation of the ovnidump description substitution",
  text="The listing printed by the build's own ovnievents is compared with the frozen documented table (set and "
       "signatures); every listed event is run in a legal context through the real ovniemu (thread Running, and Cooling / "
       "Warming where the model accepts that) and must be accepted; "
       "every unlisted code M c v over the 94 printable characters in each of the eight models (70 688 codes in the "
       "thorough tier, with empty payload and with the payload sizes listed for that category) is run as a one-event "
       "probe and must be rejected unless it falls in the carve-outs (OB?, OU?, legacy codes accepted with a warning "
       "naming them); the ovnidump line of every listed event with PRNG argument values must equal an independent "
       "implementation of the %{name} / %fmt{name} substitution, alone and inside soups of listed and unlisted codes "
       "(repeated back to back, two streams) where every unlisted code must be printed as UNKNOWN.",
  note="Quick tier probes every code of the categories that exist plus a sample of the others. Legal contexts come from "
       "the frozen table spec/events.json."),
 "C08": dict(
  cat="exploration", ref="DESIGN.md section 3, C08",
  technique="runtime monitoring: generated nested words and single-fault variants per model through the real ovniemu [-l], reference stack model over the frozen event table as oracle, labels compared through the .pcf",
  text="For each of the eight models: every enter/leave pair once with its documented label; random properly nested "
       "words (several channels, depth up to 12, no immediate re-entry) which must be accepted with the innermost open "
       "region's label shown after every event, and their cuts before the last k leaves, accepted without -l and "
       "rejected with -l for the six models with subsystem/function stacks; single faults truncated right after the "
       "faulty event (wrong partner, deleted enter, unmatched leave, double OF[) which must be rejected; immediate "
       "re-entry for channels that forbid duplicates; chains to depth 512 (accepted) and 513 (rejected); the same "
       "events with the thread paused, cooling, warming or out of CPU, rejected exactly where the model demands a "
       "running or active thread; nOS-V and Nanos6 histories in which regions and task events (which push the task body on "
       "the same stack) interleave on three threads.",
  note="Oracle: lib/refemu.py FullSystem over spec/events.json. Models allowing duplicates (nOS-V, OpenMP) are only "
       "judged in the direction the property states."),
 "C07": dict(
  cat="exploration", ref="DESIGN.md section 3, C07",
  technique="runtime monitoring: bounded-exhaustive legal-prefix closure on the real task.c/body.c in an ASan+UBSan harness plus nOS-V/Nanos6 task histories through the real ovniemu, reference body/task machine as oracle",
  text="(A) The real task module is driven in-process under ASan+UBSan for 17 flag combinations of {parallel, resurrect, "
       "pause, relax-nesting}: every legal prefix of bounded length over execute/pause/resume/end x five bodies x two "
       "thread stacks is extended by every next operation; the return code of that operation and the body the module "
       "reports as running on each stack must agree with the machine of the statement; random sequences to length 30 and "
       "long-life sequences (a parallel task running 15-6000 bodies, then one more operation on an old body id) on "
       "top. (B) nOS-V (normal and parallel tasks, body ids, API pause region) and Nanos6 (blocking region) histories on "
       "two threads - closure to depth 3/5 and random to length 50 - go through the real ovniemu: acceptance must match "
       "the reference and types 10-15 / 35-38 must show the running body's task id, type (by label), body id, app id and "
       "rank exactly while a body runs.",
  note="Nothing after a failed operation is compared. The Nanos6 subsystem re-entry rule (C08 carve-out) is part of the "
       "end-to-end reference, see DESIGN.md."),
 "C17": dict(
  cat="exploration", ref="DESIGN.md section 3, C17",
  technique="runtime monitoring end to end: generated mark programs on the real ASan+UBSan libovni, the streams it wrote merged by clock and emulated by the real ovniemu, reference mark view and .pcf label merge as oracle; single misuse/conflict cases must be refused",
  text="Random programs over ovni_mark_type/label/set/push/pop on 1-4 threads in 1-3 processes (single and stack types, "
       "labels defined by agreeing subsets of threads, labelled/unlabelled/negative values) interleaved with "
       "pause/resume/cool/warm and affinity changes run against the real libovni; the events the library wrote are "
       "merged by clock, emulated with ovniemu -l, and after every event the rows of type 100+t must show the thread's "
       "value exactly while it is active (thread.prv) and on the CPU where it runs while running (cpu.prv); both .pcf "
       "files must carry the title and every registered label. Some thirty single misuses/conflicts (pop mismatch, pop on "
       "empty, zero values, undefined types, push/set on the wrong channel type, redefinitions, title/channel-type/label "
       "conflicts between threads in several string shapes) must end in a runtime abort or an emulation failure; two controls must pass.",
  note="Runs whose streams have equal clocks across threads are inconclusive (merge order unspecified)."),
 "C20": dict(
  cat="exploration", ref="DESIGN.md section 3, C20",
  technique="runtime monitoring: bounded-exhaustive and random input-change sequences on the real sort.c+bay in an ASan+UBSan harness (outputs and written-set observed through emit callbacks); end-to-end -b runs with the sorted per-CPU values derived from the same run's cpu.prv as oracle",
  text="(A) The real sort module wired to a real bay is driven in-process: every sequence of single-input changes over "
       "{null,1,2,3} to depth 4/5 for 1-4 inputs, plus random sequences with up to 64 inputs, 64-bit values and several "
       "inputs changing in one propagation. After each propagation the outputs must be the ascending sort of the inputs "
       "(null as 0) and, for single-input changes, exactly the outputs whose value changed may have been written. (B) "
       "nOS-V and Nanos6 histories (tasks of several types, pauses inside an API/blocking region as the runtimes do or "
       "bare, subsystems, idle states, thread pauses and migrations, 2-18 CPUs) are emulated with -b; after every event the "
       "breakdown rows read top to bottom must equal the sorted per-physical-CPU values computed from the same run's "
       "cpu.prv (task type in a task body, else subsystem, else Unknown subsystem; the idle value when not Progressing), "
       "and every breakdown value must be labelled.",
  note="A CPU 'in a task body without a task' (bare pause) has no task type and is judged as 'otherwise the subsystem'. "
       "Rewrites of unchanged rows are invisible in the .prv (duplicate suppression) and are decided on the module."),
 "C09": dict(
  cat="fault_enumeration", ref="DESIGN.md section 3, C09",
  technique="runtime monitoring with crash injection: strace SIGKILL on entry to every file system call of the runtime (enumerated from a baseline of the same deterministic run), final directory decoded and compared with the client-boundary flush log, ovniemu verdict",
  text="The rtdrv driver runs deterministic conformant scripts (explicit flushes, an automatic flush, metadata flush; "
       "single thread exhaustively, three threads sampled and repeated) in direct mode and with OVNI_TMPDIR on tmpfs and "
       "on ext4. A strace baseline lists every file system call the runtime makes on the trace and temporary directories; "
       "each (call, occurrence) becomes one run in which strace kills the process on entry to that call, so every on-disk "
       "state between two system calls is visited. After the kill: a stream whose metadata in the final directory says "
       "finished must hold, in that directory, every event the thread had flushed (emit log), and ovniemu must not exit 0 "
       "while a visible stream lacks flushed events. Runs whose injection did not fire are inconclusive.",
  note="Process kill, not power loss. Exhaustive over the kill points of the scripts run, not over all programs."),
 "C10": dict(
  cat="fault_enumeration", ref="DESIGN.md section 3, C10",
  technique="runtime monitoring with fault injection: strace error injection into every file system call of the runtime, one failure per run, abort-or-complete oracle over exit status, stderr, both directories, the emit log and ovniemu -l",
  text="For every (file system call, occurrence) of the baseline of each deterministic single-thread script, with and "
       "without OVNI_TMPDIR, one run per error code (ENOSPC, EINTR, EIO, EACCES, EAGAIN, EFBIG on writes; EEXIST/ENOTDIR for mkdir; EMFILE/EINTR for open; "
       "EBUSY for unlink/rmdir) makes exactly that call fail, plus runs with genuine partial writes. If the driver "
       "returns normally, every stream in the final directory must equal the emit log byte for byte, be marked finished "
       "and the trace be accepted by ovniemu -l; otherwise it must have terminated with a diagnostic. Whatever the "
       "outcome, a thread that reached relocation must still have a complete copy of its stream in the temporary or the "
       "final directory.",
  note="Single-threaded so that exactly one call fails (strace counters are per thread). Long runs of identical 4 KiB "
       "copy calls are sampled."),
 "C11": dict(
  cat="exploration", ref="DESIGN.md section 3, C11",
  technique="ThreadSanitizer on the real libovni under concurrent generated workloads with injected schedule perturbation (hook H2), per-thread stream/metadata equality against per-thread client logs, and an init/fini race driver counting winners and refusals",
  text="libovni is built with gcc -fsanitize=thread. (1) 2-16 threads released from a barrier each run their own random "
       "op script against one process (init, add-cpu, require, attributes, hundreds to thousands of emits incl. jumbos, "
       "marks, explicit and automatic flushes, attr_flush, free), with OVNI_VERIF_DELAY perturbation at the hook points "
       "and OVNI_TMPDIR on and off: no ThreadSanitizer report may have a frame in the library, and every thread's decoded "
       "stream and metadata (tid, CPUs, attributes, required models) must be exactly what that thread emitted and set. "
       "(2) 2-16 threads race ovni_proc_init and then ovni_proc_fini; losers are parked in a SIGABRT handler: exactly "
       "one call must return, N-1 must be refused, each with a diagnostic; in a third of the runs half of the second-phase "
       "racers call ovni_proc_init instead and must all be refused. Evidence counts distinct completion orders "
       "and distinct winners as a measure of schedule diversity.",
  note="TSan reports are collected with halt_on_error=0 and de-duplicated by library entry points; the kernel decides "
       "the schedules, so this is evidence about the interleavings observed, not all of them."),
}

NOT_YET = "check not implemented yet in this revision (work in progress, see DESIGN.md section 3)"


# workload families added after rounds 9 to 15 of independently seeded changes (DESIGN.md 7.9, 7.10)
LATER = {
 "C07": "Also: task-heavy histories of 2-4 processes with per-process task and type ids, nesting depths up to 500.",
 "C15": "Also: the missing CPU index and the distance of its replacement are drawn.",
 "C06": "Also: several processes in several looms, thread ids restarting per loom, rank information on some looms, affinity-heavy histories. Also the requirements and the rank carried by a single thread of the trace.",
 "C03": "Also: traces reached through symbolic links, stream directories nested in stream directories, host clocks hours apart brought together by the offset table. Also a stale in-trace offset table beside the one named with -c.",
 "C01": "Also: thread churn under a low descriptor limit, a program run twice into one trace directory (also on two file systems with equal inode numbers), a stream larger than 2 GiB, every call order of the event functions, a file size limit striking during the relocation.",
 "C02": "Also: 40-60 threads, threads sleeping for seconds between events, a stream larger than 2 GiB, consecutive events sharing one clock read, a previous job's trace in the directory, OVNI_TMPDIR naming the trace directory, ids up to pid_max 4194304 (metadata must agree with the directories), two threads handing a CPU over through pause / warm / cool.",
 "C04": "Also: uncompleted words run with -a and with the kernel model required. Also 63-300 threads on one CPU.",
 "C05": "Also: equal thread ids in several looms and in several processes of one loom, kernel context switches around silent stretches of running threads.",
 "C08": "Also: task events, moved threads, and the ovni model's own events while the thread is out of the CPU. Also words written with the requirements on another thread than the emitting one.",
 "C09": "Also: every script under partial writes without any kill, two ordered threads, failing writes in direct mode, a 2 GiB stream and a relocation across two file systems with equal inode numbers without any fault, the refused directory presented again through links. Also EINTR at the read / write points of the relocation.",
 "C10": "Also: rename / sendfile / copy_file_range / link / writev / ftruncate in the fault tables, longer errno lists taken in turn over the occurrences of a call, two-thread scripts with path-scoped faults, OVNI_TMPDIR as another name of the trace directory. Also file size limits (RLIMIT_FSIZE) that make the kernel return genuine short counts during the relocation.",
 "C11": "Also: thread churn (drivers/churndrv.c) on the TSan and the plain build, under a low descriptor limit, init/fini racing, automatic flushes of several threads in one run, thread ids congruent modulo powers of two, repeated ovni_thread_init with a hang watchdog. Also racers passing different pid arguments.",
 "C12": "Also: rank attributes removed from a whole process, trailing flush pairs after the end event, mixed library versions per thread, codes with the top bit set, the emulator's options (-l, -a) rotating over the corruptions, wrong-size payloads that keep their content. Also header bytes set to 0x00 / 0x20.",
 "C13": "Also: loom_cpus shuffled or split over threads, rank attributes carried by a single thread of a process, ranks placed cyclically / in reverse / at random, rank information on some looms only, mark types over 0..99. Also stale output files of an earlier emulation in the directory.",
 "C14": "Also: threaded checks, padded and hexadecimal forms, a stale ERANGE in errno, attributes that only look like a requirement, well-formed strings of 62-5000 characters. Also 255-513 streams requiring one model.",
 "C16": "Also: regions before the first event and at the very end, clocks across 2^63 and from 0, capped and failing pwrite calls (LD_PRELOAD shim), lean streams of header-only events with dense far-reaching regions. Also 40-60 extra streams under ulimit -n 32.",
 "C17": "Also: conflicting definitions among 3-4 threads, wide values, threads on the virtual CPU, several looms whose threads share one id. Also titles and labels with quotes, backslashes, braces, non-ASCII letters.",
 "C18": "Also: repeated and nested events, several processes, non-ASCII labels, physical CPU ids different from indices, threads with different requirement sets, remote affinity naming a switched-out thread, a task run again from another thread. Also flush markers and sorting regions on cooling, warming and paused threads.",
 "C19": "Also: extreme clocks in sort windows, field-boundary mutants, remote-affinity insertions, every metadata string grown to lengths around the powers of two, labels of 950-1030 characters, task and thread-state events out of order.",
 "C20": "Also: bare pauses judged at every instant, 1-3 looms, no record may rewrite a row with the value it holds.",
}


def main():
    props = [json.loads(l)["id"] for l in open(os.path.join(HERE, "properties.jsonl"))]
    checks = []
    na = []
    for p in props:
        c = CHECKS.get(p)
        if not c:
            na.append({"property_id": p, "reason": NOT_YET})
            continue
        checks.append({
            "property_id": p,
            "quick_cmd": "./check %s --tier quick" % p,
            "thorough_cmd": "./check %s --tier thorough" % p,
            "evidence_file": "evidence/%s.json" % p,
            "replay_cmd_template": "./check %s --replay {path}" % p,
            "engine": "ovni-verif",
            "level_claimed": {"category": c["cat"], "text": c["text"] + (" " + LATER[p] if p in LATER else ""), "design_ref": c["ref"]},
            "level_note": c["note"],
            "technique": c["technique"],
        })
    hooks_commits = []
    hp = os.path.join(HERE, "hooks_commits.txt")
    if os.path.exists(hp):
        hooks_commits = [l.split()[0] for l in open(hp) if l.strip() and not l.startswith("#")]
    m = {
        "version": 1,
        "setup_cmd": "python3 tools/setup_check.py",
        "hooks": {
            "guard": "OVNI_VERIF",
            "enable": "each check configures a scratch cmake build of /repo's working tree with -DOVNI_VERIF in "
                      "CMAKE_C_FLAGS (lib/core.py FLAVOURS); run-time hooks additionally need an OVNI_VERIF_* "
                      "environment variable, so a guarded build behaves like the shipped one by default",
            "baseline_off_cmd": "cmake --build /repo/_build && ctest --test-dir /repo/_build -j8 --timeout 900",
            "source_commits": hooks_commits,
            "add_only": True,
        },
        "engines": [{
            "name": "ovni-verif", "path": "check",
            "serves_properties": sorted(CHECKS),
            "kind_free_text": "runtime monitoring: generated workloads against scratch builds (plain / ASan+UBSan / "
                              "TSan) of /repo, independent decoders and reference models as oracles, strace fault "
                              "and crash injection",
        }],
        "checks": checks,
        "not_applicable": na,
        "notes": "All checks are ./check <id> --tier quick|thorough; they rebuild /repo's working tree in a private "
                 "scratch directory under /dev/shm (removed on exit), honour VERIF_SEED, write evidence/<id>.json and "
                 "exit 0 / 1 (VIOLATION line) / 2 (harness failure). Known findings: known_findings.json.",
    }
    with open(os.path.join(HERE, "MANIFEST.json"), "w") as f:
        json.dump(m, f, indent=1)
        f.write("\n")


if __name__ == "__main__":
    main()
