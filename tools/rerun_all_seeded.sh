#!/bin/sh
# usage: tools/rerun_all_seeded.sh [names...]   re-runs tools/run_seeded.py for every seeded change (default: all)
cd "$(dirname "$0")/.."
names="$@"
[ -z "$names" ] && names=$(ls seeded | sort)
for n in $names; do
  out=$(python3 tools/run_seeded.py $n 2>&1 | tail -1 | cut -c1-200)
  echo "$n: $out"
done
