#!/bin/sh
# usage: tools/rerun_seeded_seeds.sh "<seeds>" [names...]  runs every seeded change against its property's quick
# check once per seed (nothing is recorded in meta.json) and prints the runs in which it was NOT reported
cd "$(dirname "$0")/.."
seeds="$1"; shift
names="$@"
[ -z "$names" ] && names=$(ls seeded | sort)
for n in $names; do
  for s in $seeds; do
    out=$(SEEDED_NO_RECORD=1 VERIF_SEED=$s python3 tools/run_seeded.py $n 2>&1 | tail -1 | cut -c1-160)
    case "$out" in
      *"exit 1"*) echo "$n seed=$s caught" ;;
      *"obsolete"*) echo "$n seed=$s obsolete" ;;
      *) echo "$n seed=$s NOT-CAUGHT: $out" ;;
    esac
  done
done
