#!/usr/bin/env python3
"""Runs checks against a seeded change.

usage: tools/run_seeded.py <seeded-name> [--tier quick|thorough] [--checks C01,C02] [--in-place]

Default: a scratch worktree of /repo with the patch applied is used as the
tree under test (VERIF_REPO), so /repo is never touched and other runs are not
disturbed.  --in-place applies the patch to /repo itself, runs, and always
restores it (git checkout), as the brief describes.
Appends the outcome to seeded/<name>/meta.json under "detection"."""
import json
import os
import shutil
import subprocess
import sys

VERIF = os.path.dirname(os.path.dirname(os.path.abspath(__file__)))


def main():
    name = sys.argv[1]
    tier = "quick"
    checks = None
    inplace = "--in-place" in sys.argv
    if "--tier" in sys.argv:
        tier = sys.argv[sys.argv.index("--tier") + 1]
    if "--checks" in sys.argv:
        checks = sys.argv[sys.argv.index("--checks") + 1].split(",")
    sdir = os.path.join(VERIF, "seeded", name)
    meta = json.load(open(os.path.join(sdir, "meta.json")))
    checks = checks or [meta["property"]]
    if meta.get("obsolete"):
        print(meta["property"], tier, "obsolete:", meta["obsolete"])
        return
    patch = os.path.join(sdir, "patch.diff")
    env = dict(os.environ)
    wt = None
    if inplace:
        subprocess.check_call(["git", "-C", "/repo", "apply", patch])
    else:
        wt = "/tmp/seedrun-%s-%d" % (name, os.getpid())
        subprocess.check_call(["git", "-C", "/repo", "worktree", "add", "-q", "--detach", wt, "HEAD"])
        subprocess.check_call(["git", "-C", wt, "apply", patch])
        env["VERIF_REPO"] = wt
    results = {}
    try:
        for c in checks:
            p = subprocess.run([os.path.join(VERIF, "check"), c, "--tier", tier], cwd=VERIF, env=env,
                               stdout=subprocess.PIPE, stderr=subprocess.STDOUT)
            out = p.stdout.decode("utf-8", "replace")
            keys = sorted(set(l.strip().split(":", 1)[0].replace("key=", "") + ":" + l.strip().split(":", 2)[1]
                              if l.strip().startswith("key=") and l.count(":") >= 2 else l.strip()[:80]
                              for l in out.split("\n") if l.strip().startswith("key=")))
            results[c] = {"tier": tier, "exit": p.returncode, "violation_keys": keys[:12],
                          "summary": [l for l in out.split("\n") if l.startswith(c + " ")][-1:]}
            print(c, tier, "exit", p.returncode, keys[:6])
    finally:
        if inplace:
            subprocess.call(["git", "-C", "/repo", "checkout", "--", "."])
        else:
            subprocess.call(["git", "-C", "/repo", "worktree", "remove", "--force", wt])
            shutil.rmtree(wt, ignore_errors=True)
        # replays written while a seeded change was applied are not evidence
        for f in os.listdir(os.path.join(VERIF, "replays")):
            if f.endswith(".json"):
                os.unlink(os.path.join(VERIF, "replays", f))
    if os.environ.get("SEEDED_NO_RECORD"):
        return
    det = meta.setdefault("detection", {})
    for c, r in results.items():
        det["%s/%s" % (c, tier)] = r
    with open(os.path.join(sdir, "meta.json"), "w") as f:
        json.dump(meta, f, indent=1)


if __name__ == "__main__":
    main()
