#!/usr/bin/env python3
"""usage: tools/seeded_table.py <suffix>   prints the DESIGN.md table rows of one round of seeded changes
(suffix '' for round 1, B, C, ...) from seeded/*/meta.json, and the names whose note starts with 'missed'."""
import json, os, sys
V = os.path.dirname(os.path.dirname(os.path.abspath(__file__)))
sfx = sys.argv[1] if len(sys.argv) > 1 else ""
rows, missed = [], []
for k in range(1, 21):
    n = "C%02d%s" % (k, sfx)
    d = json.load(open(os.path.join(V, "seeded", n, "meta.json")))
    det = []
    for ck, v in d.get("detection", {}).items():
        if v["exit"] == 1 and v["violation_keys"]:
            det.append("%s `%s`" % (ck.split("/")[0], v["violation_keys"][0].split(" stream")[0].split(": ")[0][:60].rstrip(":")))
    rows.append("| seeded/%s | %s | %s | %s; %s |" % (n, d["change"], d["needs_to_manifest"], d["calibration_note"], ", ".join(det)))
    if d["calibration_note"].startswith("missed"):
        missed.append(n)
print("| change | what it does | what it needs to manifest | detection |\n|---|---|---|---|")
print("\n".join(rows))
print("\nMISSED-AT-FIRST %d: %s" % (len(missed), ", ".join(missed)))
