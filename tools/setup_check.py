#!/usr/bin/env python3
"""MANIFEST.setup_cmd: the framework is Python + C sources compiled by each
check against its own scratch build, so there is nothing to build ahead of
time; this verifies that the tools the checks rely on are present."""
import os, shutil, subprocess, sys
need = ["cmake", "ninja", "gcc", "strace", "python3"]
missing = [t for t in need if shutil.which(t) is None]
if missing:
    print("missing tools:", missing); sys.exit(1)
if not os.path.isdir("/repo/src/emu"):
    print("/repo not found"); sys.exit(1)
os.makedirs(os.path.join(os.path.dirname(os.path.dirname(os.path.abspath(__file__))), "evidence"), exist_ok=True)
os.makedirs(os.path.join(os.path.dirname(os.path.dirname(os.path.abspath(__file__))), "replays"), exist_ok=True)
# can strace attach here?  (C09/C10 fall back to an LD_PRELOAD injector otherwise)
r = subprocess.run(["strace", "-f", "-o", "/dev/null", "true"], stdout=subprocess.PIPE, stderr=subprocess.PIPE)
print("strace attach:", "ok" if r.returncode == 0 else "UNAVAILABLE")
print("setup ok")
