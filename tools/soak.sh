#!/bin/sh
# usage: tools/soak.sh <tier> <seed>...   runs every check with each seed, prints one line per run
tier="$1"; shift
for seed in "$@"; do
  for i in 01 02 03 04 05 06 07 08 09 10 11 12 13 14 15 16 17 18 19 20; do
    out=$(VERIF_SEED=$seed ./check C$i --tier $tier 2>&1); rc=$?
    echo "seed=$seed C$i rc=$rc $(echo "$out" | grep "^C$i " | tail -1)"
    echo "$out" | grep "^VIOLATION\|key=\|KNOWN-FINDING\|HARNESS" | head -5
  done
done
