#!/bin/sh
# usage: tools/soak_some.sh <tier> <seed> <check>...   like soak.sh for the named checks only
tier="$1"; seed="$2"; shift 2
for c in "$@"; do
  out=$(VERIF_SEED=$seed ./check $c --tier $tier 2>&1); rc=$?
  echo "seed=$seed $c rc=$rc $(echo "$out" | grep "^$c " | tail -1)"
  echo "$out" | grep "^VIOLATION\|key=\|KNOWN-FINDING\|HARNESS" | head -5
done
