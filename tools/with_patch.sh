#!/bin/sh
# usage: tools/with_patch.sh <patch.diff> <command...>
# applies a patch to /repo, runs the command, and always restores /repo.
p="$1"; shift
git -C /repo apply "$p" || { echo "patch does not apply"; exit 3; }
"$@"; rc=$?
git -C /repo checkout -- . 
exit $rc
